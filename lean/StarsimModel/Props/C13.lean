/-
C13 — Disease compartments partition the living and follow allowed moves.

Property theorems only.  The per-agent transition functions `Gen.<D>.stepState / setPrognoses / stepDie` are
REGENERATED from /repo/starsim/diseases/*.py and starsim/disease.py on every run (harness/extractors/diseases.py);
the partitions and arrow relations are hand-written in Model/Compartments.lean.  Every theorem quantifies over ALL
flag valuations and ALL valuations of the guard atoms (timer comparisons, Bernoulli outcomes, membership in the
`uids` argument) and is proved by `decide +kernel` over that complete finite space — a proof, not a sample.

Hypotheses that appear:
* `g.p_uids = true → s.susceptible = true`: `set_prognoses` is only called on susceptible agents (that is property
  C12; the correspondence checks it on every observed call);
* a relation between timer comparisons where the code needs one (Measles: recovery due ⇒ infection due;
  Syphilis: a congenital outcome falls due only on a still-susceptible infant); checked on every observed agent-step.

Where today's code breaks the partition (Measles, Cholera: `exposed ∧ infected`; HIV: the dead keep `infected`)
the `_counterexample` theorem exhibits it on the regenerated model and the `_partial` theorem states what does hold.
-/
import StarsimModel.Model.Compartments
import StarsimModel.Generated.Treat_syphilis
import StarsimModel.Lemmas.InfectionCount
import StarsimModel.Lemmas.SimCore
import StarsimModel.Lemmas.Closed
import StarsimModel.Lemmas.ClosedLife

namespace StarsimModel.C13
open StarsimModel.Compartments

/-! ## SIR -/
section sir
open Gen.Sir

/-- exactly-one-of S/I/R is preserved by `step_state` (every timer outcome) and by `set_prognoses` on susceptibles -/
theorem C13_sir_partition : ∀ s : Flags, Sir.partition s = true →
    (∀ g : StepStateG, Sir.partition (stepState s g) = true) ∧
    (∀ g : SetPrognosesG, (g.p_uids = true → s.susceptible = true) → Sir.partition (setPrognoses s g) = true) := by
  decide +kernel

/-- `step_die` leaves the agents it is called on with no compartment and the others untouched -/
theorem C13_sir_dead_clear : hasStepDie = true ∧ ∀ (s : Flags) (g : StepDieG),
    (g.p_uids = true → Sir.cleared (stepDie s g) = true) ∧ (g.p_uids = false → stepDie s g = s) := by
  decide +kernel

/-- only allowed arrows: `step_state` keeps the compartment or moves I → R; `set_prognoses` moves exactly the agents
    it is called on, S → I -/
theorem C13_sir_arrows : ∀ s : Flags, Sir.partition s = true →
    (∀ g : StepStateG, Sir.stepArrow (Sir.comp s) (Sir.comp (stepState s g)) = true) ∧
    (∀ g : SetPrognosesG, (g.p_uids = true → s.susceptible = true) →
        Sir.infectArrow (Sir.comp s) (Sir.comp (setPrognoses s g)) = true ∧
        (g.p_uids = true → Sir.comp (setPrognoses s g) = .I) ∧ (g.p_uids = false → setPrognoses s g = s)) := by
  decide +kernel

/-- no recovery without infection, and no return to susceptible (immunity is permanent) -/
theorem C13_sir_no_recovery_without_infection : ∀ (s : Flags) (g : StepStateG), Sir.partition s = true →
    ((stepState s g).recovered = true → s.recovered = true ∨ s.infected = true) ∧
    ((stepState s g).susceptible = true → s.susceptible = true) ∧
    (s.recovered = true → (stepState s g).recovered = true) := by
  decide +kernel

example : Sir.partition { susceptible := false, infected := true, recovered := false } = true := by decide
example : Sir.comp (stepState { susceptible := false, infected := true, recovered := false } ⟨true⟩) = .R := by decide
end sir

/-! ## SIS -/
section sis
open Gen.Sis

theorem C13_sis_partition : ∀ s : Flags, Sis.partition s = true →
    (∀ g : StepStateG, Sis.partition (stepState s g) = true) ∧
    (∀ g : SetPrognosesG, (g.p_uids = true → s.susceptible = true) → Sis.partition (setPrognoses s g) = true) := by
  decide +kernel

theorem C13_sis_arrows : ∀ s : Flags, Sis.partition s = true →
    (∀ g : StepStateG, Sis.stepArrow (Sis.comp s) (Sis.comp (stepState s g)) = true) ∧
    (∀ g : SetPrognosesG, (g.p_uids = true → s.susceptible = true) →
        Sis.infectArrow (Sis.comp s) (Sis.comp (setPrognoses s g)) = true ∧
        (g.p_uids = true → Sis.comp (setPrognoses s g) = .I) ∧ (g.p_uids = false → setPrognoses s g = s)) := by
  decide +kernel

/-- SIS has no disease deaths: `step_die` is the inherited no-op -/
theorem C13_sis_step_die_noop : ∀ (s : Flags) (g : StepDieG), stepDie s g = s := by decide +kernel

example : Sis.comp (stepState { susceptible := false, infected := true } ⟨true⟩) = .S := by decide
end sis

/-! ## Measles -/
section measles
open Gen.Measles

/-- **Spec or as-is.**  EITHER the full property holds of the regenerated model (the repaired code: exactly one of
    S/E/I/R is preserved by `step_state` and by `set_prognoses` on susceptibles), OR today's defect is exhibited:
    `Measles.set_prognoses` calls the inherited `SIR.set_prognoses`, which sets `infected`, and then sets `exposed`, so a
    newly infected susceptible agent is exposed AND infected.  The kernel evaluates which side holds of the code under
    test; `C13_measles_partition_partial` below states what holds in both cases. -/
theorem C13_measles_partition :
    (∀ s : Flags, Measles.partition s = true →
      (∀ g : StepStateG, Measles.partition (stepState s g) = true) ∧
      (∀ g : SetPrognosesG, (g.uids = true → s.susceptible = true) → Measles.partition (setPrognoses s g) = true))
    ∨ (∃ g : SetPrognosesG, g.uids = true ∧
        Measles.partition { susceptible := true, infected := false, recovered := false, exposed := false } = true ∧
        Measles.comp (setPrognoses { susceptible := true, infected := false, recovered := false, exposed := false } g) = .EI) := by
  decide +kernel

/-- What does hold: susceptible / exposed-or-infected / recovered stay mutually exclusive and exhaustive, provided
    recovery never falls due before infection (`ti_recovered = ti_infected + dur_inf`, `dur_inf ≥ 0`). -/
theorem C13_measles_partition_partial : ∀ s : Flags, Measles.weakPartition s = true →
    (∀ g : StepStateG, (g.c_ti_recovered_le = true → g.c_ti_infected_le = true) → Measles.weakPartition (stepState s g) = true) ∧
    (∀ g : SetPrognosesG, (g.p_uids = true → s.susceptible = true) → Measles.weakPartition (setPrognoses s g) = true) := by
  decide +kernel

/-- the timer hypothesis of `C13_measles_partition_partial` is needed: without it an exposed∧infected agent becomes
    exposed∧recovered -/
theorem C13_measles_timer_hypothesis_needed :
    let s : Flags := { susceptible := false, infected := true, recovered := false, exposed := true }
    Measles.weakPartition s = true ∧
    Measles.weakPartition (stepState s { c_ti_infected_le := false, c_ti_recovered_le := true }) = false := by
  decide +kernel

/-- once the (proper) partition holds, `step_state` keeps it: the defect is confined to `set_prognoses` -/
theorem C13_measles_step_state_partition : ∀ (s : Flags) (g : StepStateG), Measles.partition s = true →
    Measles.partition (stepState s g) = true := by
  decide +kernel

theorem C13_measles_dead_clear : hasStepDie = true ∧ ∀ (s : Flags) (g : StepDieG),
    (g.p_uids = true → Measles.cleared (stepDie s g) = true) ∧ (g.p_uids = false → stepDie s g = s) := by
  decide +kernel

theorem C13_measles_arrows : ∀ s : Flags, Measles.weakPartition s = true →
    (∀ g : StepStateG, (g.c_ti_recovered_le = true → g.c_ti_infected_le = true) →
        Measles.stepArrow (Measles.comp s) (Measles.comp (stepState s g)) = true) ∧
    (∀ g : SetPrognosesG, (g.p_uids = true → s.susceptible = true) →
        Measles.infectArrow (Measles.comp s) (Measles.comp (setPrognoses s g)) = true ∧
        (g.p_uids = false → setPrognoses s g = s)) := by
  decide +kernel

example : Measles.weakPartition { susceptible := false, infected := true, recovered := false, exposed := true } = true := by decide
example : (({ c_ti_infected_le := true, c_ti_recovered_le := true } : StepStateG).c_ti_recovered_le = true →
           ({ c_ti_infected_le := true, c_ti_recovered_le := true } : StepStateG).c_ti_infected_le = true) := by decide
end measles

/-! ## Ebola -/
section ebola
open Gen.Ebola

/-- exactly-one-of S/E/I/R with `severe ⊆ infected` is preserved (Ebola does not call the inherited set_prognoses) -/
theorem C13_ebola_partition : ∀ s : Flags, Ebola.partition s = true →
    (∀ g : StepStateG, Ebola.partition (stepState s g) = true) ∧
    (∀ g : SetPrognosesG, (g.p_uids = true → s.susceptible = true) → Ebola.partition (setPrognoses s g) = true) := by
  decide +kernel

theorem C13_ebola_dead_clear : hasStepDie = true ∧ ∀ (s : Flags) (g : StepDieG),
    (g.p_uids = true → Ebola.cleared (stepDie s g) = true) ∧ (g.p_uids = false → stepDie s g = s) := by
  decide +kernel

theorem C13_ebola_arrows : ∀ s : Flags, Ebola.partition s = true →
    (∀ g : StepStateG, Ebola.stepArrow (Ebola.comp s) (Ebola.comp (stepState s g)) = true) ∧
    (∀ g : SetPrognosesG, (g.p_uids = true → s.susceptible = true) →
        Ebola.infectArrow (Ebola.comp s) (Ebola.comp (setPrognoses s g)) = true ∧
        (g.p_uids = true → Ebola.comp (setPrognoses s g) = .E) ∧ (g.p_uids = false → setPrognoses s g = s)) := by
  decide +kernel

/-- `buried` is only ever set (never cleared) by the disease's own methods and never touches the partition flags -/
theorem C13_ebola_buried_monotone : ∀ (s : Flags), s.buried = true →
    (∀ g : StepStateG, (stepState s g).buried = true) ∧ (∀ g : SetPrognosesG, (setPrognoses s g).buried = true) ∧
    (∀ g : StepDieG, (stepDie s g).buried = true) := by
  decide +kernel

example : Ebola.partition { susceptible := false, infected := true, recovered := false, exposed := false, severe := true, buried := false } = true := by decide
end ebola

/-! ## Cholera -/
section cholera
open Gen.Cholera

/-- **Spec or as-is.**  EITHER the full partition (exactly one of S/E/I/R, `symptomatic ⊆ infected`) is preserved by the
    regenerated model, OR today's defect is exhibited: `Cholera.step_state` sets `infected` for an exposed agent whose
    infection time has passed but does not clear `exposed`. -/
theorem C13_cholera_partition :
    (∀ s : Flags, Cholera.partition s = true →
      (∀ g : StepStateG, Cholera.partition (stepState s g) = true) ∧
      (∀ g : SetPrognosesG, (g.uids = true → s.susceptible = true) → Cholera.partition (setPrognoses s g) = true))
    ∨ (∃ g : StepStateG,
        Cholera.partition { susceptible := false, infected := false, exposed := true, symptomatic := false, recovered := false } = true ∧
        Cholera.comp (stepState { susceptible := false, infected := false, exposed := true, symptomatic := false, recovered := false } g) = .EI) := by
  decide +kernel

/-- What does hold (no timer hypothesis needed): susceptible / exposed-or-infected / recovered are mutually exclusive
    and exhaustive, and `symptomatic ⊆ infected`. -/
theorem C13_cholera_partition_partial : ∀ s : Flags, Cholera.weakPartition s = true →
    (∀ g : StepStateG, Cholera.weakPartition (stepState s g) = true) ∧
    (∀ g : SetPrognosesG, (g.p_uids = true → s.susceptible = true) → Cholera.weakPartition (setPrognoses s g) = true) := by
  decide +kernel

theorem C13_cholera_dead_clear : hasStepDie = true ∧ ∀ (s : Flags) (g : StepDieG),
    (g.p_uids = true → Cholera.cleared (stepDie s g) = true) ∧ (g.p_uids = false → stepDie s g = s) := by
  decide +kernel

theorem C13_cholera_arrows : ∀ s : Flags, Cholera.weakPartition s = true →
    (∀ g : StepStateG, Cholera.stepArrow (Cholera.comp s) (Cholera.comp (stepState s g)) = true) ∧
    (∀ g : SetPrognosesG, (g.p_uids = true → s.susceptible = true) →
        Cholera.infectArrow (Cholera.comp s) (Cholera.comp (setPrognoses s g)) = true ∧
        (g.p_uids = true → Cholera.comp (setPrognoses s g) = .E) ∧ (g.p_uids = false → setPrognoses s g = s)) := by
  decide +kernel

example : Cholera.weakPartition { susceptible := false, infected := true, exposed := true, symptomatic := true, recovered := false } = true := by decide
end cholera

/-! ## Gonorrhea -/
section gonorrhea
open Gen.Gonorrhea

theorem C13_gonorrhea_partition : ∀ s : Flags, Gonorrhea.partition s = true →
    (∀ g : StepStateG, Gonorrhea.partition (stepState s g) = true) ∧
    (∀ g : SetPrognosesG, (g.p_uids = true → s.susceptible = true) → Gonorrhea.partition (setPrognoses s g) = true) := by
  decide +kernel

theorem C13_gonorrhea_arrows : ∀ s : Flags, Gonorrhea.partition s = true →
    (∀ g : StepStateG, Gonorrhea.stepArrow (Gonorrhea.comp s) (Gonorrhea.comp (stepState s g)) = true) ∧
    (∀ g : SetPrognosesG, (g.p_uids = true → s.susceptible = true) →
        Gonorrhea.infectArrow (Gonorrhea.comp s) (Gonorrhea.comp (setPrognoses s g)) = true ∧
        (g.p_uids = true → Gonorrhea.comp (setPrognoses s g) = .I) ∧ (g.p_uids = false → setPrognoses s g = s)) := by
  decide +kernel

example : Gonorrhea.partition { susceptible := false, infected := true, symptomatic := true } = true := by decide
end gonorrhea

/-! ## HIV -/
section hiv
open Gen.Hiv

theorem C13_hiv_partition : ∀ s : Flags, Hiv.partition s = true →
    (∀ g : StepStateG, Hiv.partition (stepState s g) = true) ∧
    (∀ g : SetPrognosesG, (g.p_uids = true → s.susceptible = true) → Hiv.partition (setPrognoses s g) = true) := by
  decide +kernel

/-- no recovery: `step_state` never changes a flag; infection moves exactly the agents it is called on, S → I -/
theorem C13_hiv_arrows : ∀ s : Flags, Hiv.partition s = true →
    (∀ g : StepStateG, stepState s g = s) ∧
    (∀ g : SetPrognosesG, (g.p_uids = true → s.susceptible = true) →
        Hiv.infectArrow (Hiv.comp s) (Hiv.comp (setPrognoses s g)) = true ∧
        (g.p_uids = true → Hiv.comp (setPrognoses s g) = .I) ∧ (g.p_uids = false → setPrognoses s g = s)) := by
  decide +kernel

/-- **Spec or as-is.**  EITHER `step_die` leaves the agents it is called on with no compartment (repaired code), OR
    today's defect is exhibited: HIV requests deaths (`people.request_death`) but inherits the empty `Disease.step_die`,
    so an agent who dies keeps `infected` (and is still counted by `n_infected` on the step of death) — and then
    `step_die` changes nothing at all. -/
theorem C13_hiv_dead_clear :
    (hasStepDie = true ∧ ∀ (s : Flags) (g : StepDieG),
        (g.uids = true → Hiv.cleared (stepDie s g) = true) ∧ (g.uids = false → stepDie s g = s))
    ∨ (requestsDeath = true ∧ hasStepDie = false ∧
       Hiv.partition { susceptible := false, infected := true, on_art := false } = true ∧
       (∀ g : StepDieG, Hiv.cleared (stepDie { susceptible := false, infected := true, on_art := false } g) = false) ∧
       (∀ (s : Flags) (g : StepDieG), stepDie s g = s)) := by
  decide +kernel

example : Hiv.partition { susceptible := false, infected := true, on_art := true } = true := by decide
end hiv

/-! ## Syphilis -/
section syphilis
open Gen.Syphilis

/-- exactly one of susceptible / exposed / primary / secondary / latent_temp / latent_long / tertiary / congenital,
    with `infected` ⇔ adult stage, is preserved by `step_state` for every timer outcome — provided a congenital outcome
    only falls due for a still-susceptible agent — and by `set_prognoses` on susceptibles. -/
theorem C13_syphilis_partition : ∀ s : Flags, Syphilis.partition s = true →
    (∀ g : StepStateG, (g.c_ti_congenital_eq = true → s.susceptible = true) → Syphilis.partition (stepState s g) = true) ∧
    (∀ g : SetPrognosesG, (g.p_uids = true → s.susceptible = true) → Syphilis.partition (setPrognoses s g) = true) := by
  decide +kernel

theorem C13_syphilis_arrows : ∀ s : Flags, Syphilis.partition s = true →
    (∀ g : StepStateG, (g.c_ti_congenital_eq = true → s.susceptible = true) →
        Syphilis.stepArrow (Syphilis.comp s) (Syphilis.comp (stepState s g)) = true ∧
        (s.ever_exposed = true → (stepState s g).ever_exposed = true)) ∧
    (∀ g : SetPrognosesG, (g.p_uids = true → s.susceptible = true) →
        Syphilis.infectArrow (Syphilis.comp s) (Syphilis.comp (setPrognoses s g)) = true ∧
        (g.p_uids = true → Syphilis.comp (setPrognoses s g) = .exposed ∧ (setPrognoses s g).ever_exposed = true) ∧
        (g.p_uids = false → setPrognoses s g = s)) := by
  decide +kernel

/-- **Spec or as-is** (round 3): the hypothesis "a congenital outcome only falls due for a still-susceptible agent" of the
    two theorems above.  EITHER `step_state` preserves the partition for every guard valuation without it (a repaired
    `step_state` that applies the outcome to susceptibles only), OR it is needed: there is a partitioned, non-susceptible
    agent whose outcome falls due and who leaves `step_state` in a stage AND congenital (kernel search). -/
theorem C13_syphilis_congenital_due :
    (∀ (s : Flags) (g : StepStateG), Syphilis.partition s = true → Syphilis.partition (stepState s g) = true)
    ∨ (∃ (s : Flags) (g : StepStateG), Syphilis.partition s = true ∧ s.susceptible = false ∧ g.c_ti_congenital_eq = true ∧
        Syphilis.partition (stepState s g) = false ∧ (stepState s g).congenital = true) := by
  first
  | (right; decide +kernel)
  | (left; decide +kernel)

/-- **Spec or as-is** (round 3): the clock of the birth outcomes.  `step_state` compares `ti_congenital` with the module's
    own step index.  EITHER `set_congenital` schedules the outcomes in that clock (regenerated fact), OR it schedules them
    from the SIMULATION's index — and then, for a module on a finer timestep (`r ≥ 2` steps per simulation step, from the
    second simulation step on), an outcome meant to fall due `d` module steps from now, written as `sim index + d`, is
    strictly earlier than intended (`module index + d`), by the whole gap between the clocks; for a coarser module it is
    strictly later.  With the wrong due time the hypothesis of `C13_syphilis_partition` is no longer guaranteed by the
    birth process (known finding C13-syphilis-congenital-sim-clock). -/
theorem C13_syphilis_congenital_clock :
    congenitalOutcomeInModuleClock = true
    ∨ (congenitalOutcomeInModuleClock = false ∧
       (∀ r k m d : Nat, 2 ≤ r → 2 ≤ k → (TimerOps.moduleIndexRange r k).1 ≤ m → k + d < m + d) ∧
       (∀ c j d : Nat, 2 ≤ c → 1 ≤ j → j + d < TimerOps.simIndexCoarse c j + d)) := by
  first
  | (left; decide)
  | (right
     refine ⟨by decide, ?_, ?_⟩
     · intro r k m d hr hk hm
       have h : 2 * (k - 1) ≤ r * (k - 1) := Nat.mul_le_mul_right _ hr
       simp only [TimerOps.moduleIndexRange] at hm
       split at hm <;> simp at hm <;> omega
     · intro c j d hc hj
       have h : 2 * j ≤ c * j := Nat.mul_le_mul_right _ hc
       simp only [TimerOps.simIndexCoarse]
       omega)

example : Syphilis.partition {
    susceptible := false, infected := true, exposed := false, primary := false, secondary := true,
    latent_temp := false, latent_long := false, tertiary := false, immune := false, ever_exposed := true,
    congenital := false } = true := by decide
end syphilis

/-! ## Infectious agents are never susceptible (every disease, under what its code keeps today) -/
theorem C13_infectious_not_susceptible :
    (∀ s : Gen.Sir.Flags, Sir.partition s = true → Gen.Sir.infectious s = true → s.susceptible = false) ∧
    (∀ s : Gen.Sis.Flags, Sis.partition s = true → Gen.Sis.infectious s = true → s.susceptible = false) ∧
    (∀ s : Gen.Measles.Flags, Measles.weakPartition s = true → Gen.Measles.infectious s = true → s.susceptible = false) ∧
    (∀ s : Gen.Ebola.Flags, Ebola.partition s = true → Gen.Ebola.infectious s = true → s.susceptible = false) ∧
    (∀ s : Gen.Cholera.Flags, Cholera.weakPartition s = true → Gen.Cholera.infectious s = true → s.susceptible = false) ∧
    (∀ s : Gen.Gonorrhea.Flags, Gonorrhea.partition s = true → Gen.Gonorrhea.infectious s = true → s.susceptible = false) ∧
    (∀ s : Gen.Hiv.Flags, Hiv.partition s = true → Gen.Hiv.infectious s = true → s.susceptible = false) ∧
    (∀ s : Gen.Syphilis.Flags, Syphilis.partition s = true → Gen.Syphilis.infectious s = true → s.susceptible = false) := by
  decide +kernel

/-! ## Infection counts: cumulative infections = number of infection events -/
section counts
open InfectionCount

/-- The diseases whose `set_prognoses` leaves `ti_infected` = the current step for every agent it is called on
    (regenerated fact): for these the counting theorem below applies. -/
theorem C13_infection_time_recorded :
    Gen.Sir.infectionTimeIsNow = true ∧ Gen.Sis.infectionTimeIsNow = true ∧ Gen.Gonorrhea.infectionTimeIsNow = true ∧
    Gen.Hiv.infectionTimeIsNow = true ∧ Gen.Syphilis.infectionTimeIsNow = true := by decide

/-- **Spec or as-is** for the three diseases with a latent stage: EITHER `set_prognoses` records the current step (then
    `C13_cum_infections` applies), OR it overwrites `ti_infected` with a later time — and then, by `new_zero_of_future`,
    the infection is not counted at its step whatever the population: `new_infections` undercounts (known finding). -/
theorem C13_infection_time_latent_stage :
    (Gen.Measles.infectionTimeIsNow = true ∨ Gen.Measles.infectionTimeIsNow = false) ∧
    (Gen.Ebola.infectionTimeIsNow = true ∨ Gen.Ebola.infectionTimeIsNow = false) ∧
    (Gen.Cholera.infectionTimeIsNow = true ∨ Gen.Cholera.infectionTimeIsNow = false) ∧
    (∀ (m : TiMap) (t k : Nat) (pop us : List Nat), Before m t → newInfections (infect m (t + k + 1) us) pop t = 0) := by
  refine ⟨by decide, by decide, by decide, fun m t k pop us h => new_zero_of_future m t k pop us h⟩

/-- **Counting.** If every infection records the current step (`infect`), then for every run — any sequence of steps,
    each with its own active population `pop` (births, deaths) and its own duplicate-free set `us ⊆ pop` of agents passed
    to `set_prognoses` (`Infection.infect` de-duplicates), starting from any state whose recorded times are all earlier —
    the recorded `new_infections` series is exactly the number of infection events per step, and `cum_infections[i]`
    is the number of infection events up to and including step `i`. -/
theorem C13_cum_infections (steps : List (List Nat × List Nat)) (m : TiMap) (t : Nat) (h : Before m t)
    (hs : ∀ p ∈ steps, p.1.Nodup ∧ p.2.Nodup ∧ ∀ u ∈ p.2, u ∈ p.1) :
    run m t steps = steps.map (fun p => p.2.length) ∧
    ∀ (i : Nat) (hi : i < (cumulative (run m t steps)).length),
      (cumulative (run m t steps))[i] = ((steps.map (fun p => p.2.length)).take (i + 1)).sum := by
  have hr := run_eq_events steps m t h hs
  refine ⟨hr, fun i hi => ?_⟩
  rw [cumulative_getElem _ i hi, hr]

/-- non-vacuity: two steps, a birth and a death in between, three events -/
example : run (fun _ => none) 0 [([0, 1, 2], [1]), ([0, 2, 3], [0, 3])] = [1, 2] := by decide
example : cumulative [1, 2, 0, 4] = [1, 3, 3, 7] := by decide
/-- without the `infect`-records-now rule nothing is counted: a future time never equals the step -/
example : newInfections (fun u => if u = 1 then some 7 else none) [0, 1, 2] 0 = 0 := by decide
end counts

/-! ## Flag writers outside the disease classes

Treatment: `Gen.TreatSyphilis.treatBpg` is regenerated from `Tx.administer`, `syph_treatment.step` and the product table
`syph_tx.csv` (harness/extractors/treatments.py).  ART only writes `on_art`.  Every other writer (`set_congenital`,
connectors, other interventions) must leave the disease flags unchanged: that is the frame condition the correspondence
checks on every run. -/
section outside
open Gen.Syphilis Gen.TreatSyphilis

/-- **Spec or as-is.**  EITHER a treatment round preserves the whole syphilis partition (including `infected ⇔ stage`),
    OR today's defect is exhibited: `syph_treatment.step` clears `infected` for EVERY treated agent, also those whose
    treatment failed or whose stage (`exposed`) the product does not treat — they stay in their stage, still
    infectious, but are no longer `infected`. -/
theorem C13_syphilis_treatment :
    (∀ (s : Flags) (g : BpgG), Syphilis.partition s = true → Syphilis.partition (treatBpg s g) = true)
    ∨ (∃ (s : Flags) (g : BpgG), Syphilis.partition s = true ∧ g.p_treated = true ∧
        Gen.Syphilis.infectious (treatBpg s g) = true ∧ (treatBpg s g).infected = false) := by
  decide +kernel

/-- What does hold of a treatment round, for every flag and guard valuation: the stage partition (exactly one of
    susceptible / six stages / congenital) is preserved; the agent stays where it is or returns from a treatable stage to
    susceptible; untreated agents are untouched; `infected` is only ever cleared; `ever_exposed` persists. -/
theorem C13_syphilis_treatment_partial : ∀ (s : Flags) (g : BpgG), Syphilis.partition s = true →
    Syphilis.stagePartition (treatBpg s g) = true ∧
    Syphilis.treatArrow (Syphilis.comp s) (Syphilis.comp (treatBpg s g)) = true ∧
    (g.p_treated = false → treatBpg s g = s) ∧
    ((treatBpg s g).infected = true → s.infected = true) ∧
    ((treatBpg s g).susceptible = true → (treatBpg s g).infected = false) ∧
    (treatBpg s g).ever_exposed = s.ever_exposed := by
  decide +kernel

/-- ART writes `on_art` only: the HIV partition and compartment do not depend on it. -/
theorem C13_hiv_art_frame : ∀ (s : Gen.Hiv.Flags) (b : Bool),
    Hiv.partition { s with on_art := b } = Hiv.partition s ∧ Hiv.comp { s with on_art := b } = Hiv.comp s := by
  decide +kernel

example : Syphilis.comp (treatBpg { susceptible := false, infected := true, exposed := false, primary := true, secondary := false,
                                    latent_temp := false, latent_long := false, tertiary := false, immune := false,
                                    ever_exposed := true, congenital := false }
                                  ⟨true, false, true, false, false, false, false⟩) = .S := by decide
end outside

/-! ## Scheduled times: recovery / death never precede the infection (durations non-negative)

`Gen.<D>.setPrognosesTimers now simNow d s g t` is the regenerated per-agent effect of `set_prognoses` on the `ti_*` arrays
(`none` = nan): `now` is the current step OF THE MODULE (`self.ti`), `simNow` the current step of the simulation
(`self.sim.ti`; an unrelated rational: a module may run on its own timestep), `d` the opaque drawn durations (one variable per occurrence), `g` the guard
atoms selecting the agents of each write, `t` the timers before.  Theorems are for ALL rational times and durations
(`grind` over core `Rat`); "fresh" = nothing scheduled before (first infection). -/
section timers
open TimerOps

/-- SIR: the infection time is the current step; recovery and death are scheduled at or after it. -/
theorem C13_sir_timers (now simNow : Rat) (d : Gen.Sir.SetPrognosesD) (s : Gen.Sir.Flags) (g : Gen.Sir.SetPrognosesTG)
    (t : Gen.Sir.Timers) (hd : d.nonneg) (hu : g.p_uids = true) (hf : t = Gen.Sir.Timers.const none) :
    (Gen.Sir.setPrognosesTimers now simNow d s g t).ti_infected = some now ∧
    leOpt (some now) (Gen.Sir.setPrognosesTimers now simNow d s g t).ti_recovered = true ∧
    leOpt (some now) (Gen.Sir.setPrognosesTimers now simNow d s g t).ti_dead = true := by
  subst hf
  simp only [Gen.Sir.setPrognosesTimers, Gen.Sir.Timers.const, Gen.Sir.SetPrognosesD.nonneg, oadd, leOpt] at *
  grind

/-- SIS (reinfection possible): every infection reschedules recovery, whatever was scheduled before. -/
theorem C13_sis_timers (now simNow : Rat) (d : Gen.Sis.SetPrognosesD) (s : Gen.Sis.Flags) (g : Gen.Sis.SetPrognosesTG)
    (t : Gen.Sis.Timers) (hd : d.nonneg) (hu : g.p_uids = true) :
    (Gen.Sis.setPrognosesTimers now simNow d s g t).ti_infected = some now ∧
    leOpt (some now) (Gen.Sis.setPrognosesTimers now simNow d s g t).ti_recovered = true := by
  simp only [Gen.Sis.setPrognosesTimers, Gen.Sis.SetPrognosesD.nonneg, oadd, leOpt] at *
  grind

/-- Measles, relative to the infection EVENT (exposure = the current step): every scheduled time is at or after it. -/
theorem C13_measles_timers (now simNow : Rat) (d : Gen.Measles.SetPrognosesD) (s : Gen.Measles.Flags) (g : Gen.Measles.SetPrognosesTG)
    (t : Gen.Measles.Timers) (hd : d.nonneg) (hu : g.p_uids = true) (hf : t = Gen.Measles.Timers.const none) :
    (Gen.Measles.setPrognosesTimers now simNow d s g t).ti_exposed = some now ∧
    leOpt (some now) (Gen.Measles.setPrognosesTimers now simNow d s g t).ti_infected = true ∧
    leOpt (some now) (Gen.Measles.setPrognosesTimers now simNow d s g t).ti_recovered = true ∧
    leOpt (some now) (Gen.Measles.setPrognosesTimers now simNow d s g t).ti_dead = true := by
  subst hf
  simp only [Gen.Measles.setPrognosesTimers, Gen.Measles.Timers.const, Gen.Measles.SetPrognosesD.nonneg, oadd, leOpt] at *
  grind

/-- Measles, relative to the ONSET (`ti_infected`): **spec or as-is**.  EITHER recovery and death are never scheduled
    before the onset, OR today's double prognosis is exhibited (kernel search over 0/1 durations and all guard
    valuations): the inherited `SIR.set_prognoses` schedules recovery from the infection step with its own `p_death`
    draw; an agent that recovers in that draw and dies in Measles' own draw keeps it, before `ti_infected`. -/
theorem C13_measles_timers_onset :
    (∀ (now simNow : Rat) (d : Gen.Measles.SetPrognosesD) (s : Gen.Measles.Flags) (g : Gen.Measles.SetPrognosesTG),
      d.nonneg → g.p_uids = true →
      leOpt (Gen.Measles.setPrognosesTimers now simNow d s g (Gen.Measles.Timers.const none)).ti_infected
            (Gen.Measles.setPrognosesTimers now simNow d s g (Gen.Measles.Timers.const none)).ti_recovered = true ∧
      leOpt (Gen.Measles.setPrognosesTimers now simNow d s g (Gen.Measles.Timers.const none)).ti_infected
            (Gen.Measles.setPrognosesTimers now simNow d s g (Gen.Measles.Timers.const none)).ti_dead = true)
    ∨ (∃ d ∈ Gen.Measles.SetPrognosesD.all01, ∃ g : Gen.Measles.SetPrognosesTG, ∃ s : Gen.Measles.Flags, g.p_uids = true ∧ d.nonneg ∧
        leOpt (Gen.Measles.setPrognosesTimers 0 0 d s g (Gen.Measles.Timers.const none)).ti_infected
              (Gen.Measles.setPrognosesTimers 0 0 d s g (Gen.Measles.Timers.const none)).ti_recovered = false) := by
  first
  | (right; decide +kernel)
  | (left; intro now simNow d s g hd hu
     simp only [Gen.Measles.setPrognosesTimers, Gen.Measles.Timers.const, Gen.Measles.SetPrognosesD.nonneg, oadd, leOpt] at *
     grind)

/-- Ebola: exposure now ≤ onset ≤ severe, recovery, death; burial at or after death. -/
theorem C13_ebola_timers (now simNow : Rat) (d : Gen.Ebola.SetPrognosesD) (s : Gen.Ebola.Flags) (g : Gen.Ebola.SetPrognosesTG)
    (t : Gen.Ebola.Timers) (hd : d.nonneg) (hu : g.p_uids = true) (hf : t = Gen.Ebola.Timers.const none) :
    (Gen.Ebola.setPrognosesTimers now simNow d s g t).ti_exposed = some now ∧
    leOpt (some now) (Gen.Ebola.setPrognosesTimers now simNow d s g t).ti_infected = true ∧
    leOpt (Gen.Ebola.setPrognosesTimers now simNow d s g t).ti_infected (Gen.Ebola.setPrognosesTimers now simNow d s g t).ti_severe = true ∧
    leOpt (Gen.Ebola.setPrognosesTimers now simNow d s g t).ti_infected (Gen.Ebola.setPrognosesTimers now simNow d s g t).ti_recovered = true ∧
    leOpt (Gen.Ebola.setPrognosesTimers now simNow d s g t).ti_infected (Gen.Ebola.setPrognosesTimers now simNow d s g t).ti_dead = true ∧
    leOpt (Gen.Ebola.setPrognosesTimers now simNow d s g t).ti_dead (Gen.Ebola.setPrognosesTimers now simNow d s g t).ti_buried = true := by
  subst hf
  simp only [Gen.Ebola.setPrognosesTimers, Gen.Ebola.Timers.const, Gen.Ebola.SetPrognosesD.nonneg, oadd, leOpt] at *
  grind

/-- Cholera, relative to the infection event (exposure): everything is scheduled at or after it, symptoms at the onset. -/
theorem C13_cholera_timers (now simNow : Rat) (d : Gen.Cholera.SetPrognosesD) (s : Gen.Cholera.Flags) (g : Gen.Cholera.SetPrognosesTG)
    (t : Gen.Cholera.Timers) (hd : d.nonneg) (hu : g.p_uids = true) (hf : t = Gen.Cholera.Timers.const none) :
    (Gen.Cholera.setPrognosesTimers now simNow d s g t).ti_exposed = some now ∧
    leOpt (some now) (Gen.Cholera.setPrognosesTimers now simNow d s g t).ti_infected = true ∧
    leOpt (some now) (Gen.Cholera.setPrognosesTimers now simNow d s g t).ti_recovered = true ∧
    leOpt (Gen.Cholera.setPrognosesTimers now simNow d s g t).ti_infected (Gen.Cholera.setPrognosesTimers now simNow d s g t).ti_symptomatic = true ∧
    leOpt (Gen.Cholera.setPrognosesTimers now simNow d s g t).ti_infected (Gen.Cholera.setPrognosesTimers now simNow d s g t).ti_dead = true := by
  subst hf
  simp only [Gen.Cholera.setPrognosesTimers, Gen.Cholera.Timers.const, Gen.Cholera.SetPrognosesD.nonneg, oadd, leOpt] at *
  grind

/-- Cholera, relative to the ONSET: **spec or as-is**.  Today recovery is scheduled from the exposure
    (`ti_exposed + dur`) while the onset is `ti + dur_exp2inf`: recovery can precede the onset (E → R without ever
    being `infected`). -/
theorem C13_cholera_timers_onset :
    (∀ (now simNow : Rat) (d : Gen.Cholera.SetPrognosesD) (s : Gen.Cholera.Flags) (g : Gen.Cholera.SetPrognosesTG),
      d.nonneg → g.p_uids = true →
      leOpt (Gen.Cholera.setPrognosesTimers now simNow d s g (Gen.Cholera.Timers.const none)).ti_infected
            (Gen.Cholera.setPrognosesTimers now simNow d s g (Gen.Cholera.Timers.const none)).ti_recovered = true)
    ∨ (∃ d ∈ Gen.Cholera.SetPrognosesD.all01, ∃ g : Gen.Cholera.SetPrognosesTG, ∃ s : Gen.Cholera.Flags, g.p_uids = true ∧ d.nonneg ∧
        leOpt (Gen.Cholera.setPrognosesTimers 0 0 d s g (Gen.Cholera.Timers.const none)).ti_infected
              (Gen.Cholera.setPrognosesTimers 0 0 d s g (Gen.Cholera.Timers.const none)).ti_recovered = false) := by
  first
  | (right; decide +kernel)
  | (left; intro now simNow d s g hd hu
     simp only [Gen.Cholera.setPrognosesTimers, Gen.Cholera.Timers.const, Gen.Cholera.SetPrognosesD.nonneg, oadd, leOpt] at *
     grind)

/-- Gonorrhea, first infection: a scheduled clearance is at or after the infection. -/
theorem C13_gonorrhea_timers (now simNow : Rat) (d : Gen.Gonorrhea.SetPrognosesD) (s : Gen.Gonorrhea.Flags) (g : Gen.Gonorrhea.SetPrognosesTG)
    (t : Gen.Gonorrhea.Timers) (hd : d.nonneg) (hu : g.p_uids = true) (hf : t = Gen.Gonorrhea.Timers.const none) :
    (Gen.Gonorrhea.setPrognosesTimers now simNow d s g t).ti_infected = some now ∧
    leOpt (some now) (Gen.Gonorrhea.setPrognosesTimers now simNow d s g t).ti_clearance = true := by
  subst hf
  simp only [Gen.Gonorrhea.setPrognosesTimers, Gen.Gonorrhea.Timers.const, Gen.Gonorrhea.SetPrognosesD.nonneg, oadd, leOpt] at *
  grind

/-- Gonorrhea, REinfection: **spec or as-is**.  EITHER every infection leaves a clearance time at or after it whatever
    was scheduled before, OR today's defect is exhibited: `set_prognoses` reschedules `ti_clearance` only for the `p_clear`
    fraction, so an agent infected at step 1 can keep a clearance time 0 from an earlier infection. -/
theorem C13_gonorrhea_timers_reinfection :
    (∀ (now simNow : Rat) (d : Gen.Gonorrhea.SetPrognosesD) (s : Gen.Gonorrhea.Flags) (g : Gen.Gonorrhea.SetPrognosesTG) (t : Gen.Gonorrhea.Timers),
      d.nonneg → g.p_uids = true → leOpt (some now) (Gen.Gonorrhea.setPrognosesTimers now simNow d s g t).ti_clearance = true)
    ∨ (∃ d ∈ Gen.Gonorrhea.SetPrognosesD.all01, ∃ g : Gen.Gonorrhea.SetPrognosesTG, ∃ s : Gen.Gonorrhea.Flags, g.p_uids = true ∧ d.nonneg ∧
        leOpt (some 1) (Gen.Gonorrhea.setPrognosesTimers 1 1 d s g (Gen.Gonorrhea.Timers.const (some 0))).ti_clearance = false) := by
  first
  | (right; decide +kernel)
  | (left; intro now simNow d s g t hd hu
     simp only [Gen.Gonorrhea.setPrognosesTimers, Gen.Gonorrhea.SetPrognosesD.nonneg, oadd, leOpt] at *
     grind)

/-- HIV: the infection time is the current step (death is requested, not scheduled, by `step_state`). -/
theorem C13_hiv_timers (now simNow : Rat) (d : Gen.Hiv.SetPrognosesD) (s : Gen.Hiv.Flags) (g : Gen.Hiv.SetPrognosesTG)
    (t : Gen.Hiv.Timers) (hu : g.p_uids = true) :
    (Gen.Hiv.setPrognosesTimers now simNow d s g t).ti_infected = some now := by
  simp only [Gen.Hiv.setPrognosesTimers] at *
  grind

/-- Syphilis: exposure and infection now ≤ primary ≤ secondary. -/
theorem C13_syphilis_timers (now simNow : Rat) (d : Gen.Syphilis.SetPrognosesD) (s : Gen.Syphilis.Flags) (g : Gen.Syphilis.SetPrognosesTG)
    (t : Gen.Syphilis.Timers) (hd : d.nonneg) (hu : g.p_uids = true) :
    (Gen.Syphilis.setPrognosesTimers now simNow d s g t).ti_infected = some now ∧
    (Gen.Syphilis.setPrognosesTimers now simNow d s g t).ti_exposed = some now ∧
    leOpt (some now) (Gen.Syphilis.setPrognosesTimers now simNow d s g t).ti_primary = true ∧
    leOpt (Gen.Syphilis.setPrognosesTimers now simNow d s g t).ti_primary (Gen.Syphilis.setPrognosesTimers now simNow d s g t).ti_secondary = true := by
  simp only [Gen.Syphilis.setPrognosesTimers, Gen.Syphilis.SetPrognosesD.nonneg, oadd, leOpt] at *
  grind

/-- non-vacuity: durations all 1 are non-negative; the fresh timer record exists -/
example : (Gen.Sir.SetPrognosesD.all01.all fun d => decide d.nonneg) = true := by decide +kernel
example : (Gen.Sir.setPrognosesTimers 3 1 ⟨2, 5⟩ ⟨true, false, false⟩ ⟨true, true⟩ (Gen.Sir.Timers.const none)).ti_dead = some 5 := by decide +kernel

/-- **One clock.**  A module counts its own steps (`self.ti` = `now`); the simulation counts its own (`self.sim.ti` =
    `simNow`), and the two differ as soon as the module is given its own `dt` / `unit`.  `ti_infected` (and the step that
    `update_results` counts) is in the module's clock, so every time `set_prognoses` schedules must be too: for every
    disease the regenerated timer function does not depend on the simulation's step index at all.  (A write such as
    `ti_recovered = self.sim.ti + dur` makes the regenerated function mention `simNow` and this stops elaborating; the
    ordering theorems above fail with it, since they hold for EVERY pair `now`, `simNow`.) -/
theorem C13_timers_own_clock (now a b : Rat) :
    (∀ d s g t, Gen.Sir.setPrognosesTimers now a d s g t = Gen.Sir.setPrognosesTimers now b d s g t) ∧
    (∀ d s g t, Gen.Sis.setPrognosesTimers now a d s g t = Gen.Sis.setPrognosesTimers now b d s g t) ∧
    (∀ d s g t, Gen.Measles.setPrognosesTimers now a d s g t = Gen.Measles.setPrognosesTimers now b d s g t) ∧
    (∀ d s g t, Gen.Ebola.setPrognosesTimers now a d s g t = Gen.Ebola.setPrognosesTimers now b d s g t) ∧
    (∀ d s g t, Gen.Cholera.setPrognosesTimers now a d s g t = Gen.Cholera.setPrognosesTimers now b d s g t) ∧
    (∀ d s g t, Gen.Gonorrhea.setPrognosesTimers now a d s g t = Gen.Gonorrhea.setPrognosesTimers now b d s g t) ∧
    (∀ d s g t, Gen.Hiv.setPrognosesTimers now a d s g t = Gen.Hiv.setPrognosesTimers now b d s g t) ∧
    (∀ d s g t, Gen.Syphilis.setPrognosesTimers now a d s g t = Gen.Syphilis.setPrognosesTimers now b d s g t) :=
  ⟨fun _ _ _ _ => rfl, fun _ _ _ _ => rfl, fun _ _ _ _ => rfl, fun _ _ _ _ => rfl,
   fun _ _ _ _ => rfl, fun _ _ _ _ => rfl, fun _ _ _ _ => rfl, fun _ _ _ _ => rfl⟩

/-- **The two clocks differ.**  A module making `r ≥ 2` steps per simulation step is, from the second simulation step on,
    strictly ahead of the simulation's index at every one of its steps; a module making one step per `c ≥ 2` simulation
    steps is strictly behind from its step 1 on.  (So no time written in one clock may be compared in the other; the index
    relations themselves are compared with the real loop on every run.) -/
theorem C13_clocks_differ :
    (∀ r k m : Nat, 2 ≤ r → 2 ≤ k → (moduleIndexRange r k).1 ≤ m → k < m) ∧
    (∀ r k : Nat, 1 ≤ r → (moduleIndexRange r k).1 ≤ (moduleIndexRange r k).2) ∧
    (∀ k : Nat, moduleIndexRange 1 k = (k, k)) ∧
    (∀ c j : Nat, 2 ≤ c → 1 ≤ j → j < simIndexCoarse c j) ∧
    (∀ j : Nat, simIndexCoarse 1 j = j) ∧
    (∀ c j k : Nat, 2 ≤ c → 2 ≤ j → (simIndexRangeCoarse c j).1 ≤ k → j < k) ∧
    (∀ c j : Nat, 1 ≤ c → (simIndexRangeCoarse c j).2 = simIndexCoarse c j) := by
  refine ⟨?_, ?_, ?_, ?_, ?_, ?_, ?_⟩
  · intro r k m hr hk hm
    have h : 2 * (k - 1) ≤ r * (k - 1) := Nat.mul_le_mul_right _ hr
    simp only [moduleIndexRange] at hm
    split at hm <;> simp at hm <;> omega
  · intro r k hr
    have h : 1 * (k - 1) ≤ r * (k - 1) := Nat.mul_le_mul_right _ hr
    have h2 : r * k = r * (k - 1) + r * (k - (k - 1)) := by rw [← Nat.mul_add]; congr 1; omega
    simp only [moduleIndexRange]
    split
    · simp
    · have h3 : k - (k - 1) = 1 := by omega
      rw [h3, Nat.mul_one] at h2
      simp only; omega
  · intro k
    simp only [moduleIndexRange]
    split <;> simp <;> omega
  · intro c j hc hj
    have h : 2 * j ≤ c * j := Nat.mul_le_mul_right _ hc
    simp only [simIndexCoarse]; omega
  · intro j; simp [simIndexCoarse]
  · intro c j k hc hj hk
    have h : 2 * (j - 1) ≤ c * (j - 1) := Nat.mul_le_mul_right _ hc
    simp only [simIndexRangeCoarse] at hk
    split at hk <;> simp at hk <;> omega
  · intro c j _
    simp only [simIndexRangeCoarse, simIndexCoarse]
    split
    · next h => simp [h]
    · rfl

example : simIndexRangeCoarse 2 3 = (5, 6) := by decide
example : moduleIndexRange 4 1 = (1, 4) ∧ moduleIndexRange 4 2 = (5, 8) ∧ simIndexCoarse 3 5 = 15 := by decide

/-- non-vacuity of the two-clock statement: a module on half the simulation's step is at its step 16 while the simulation
    is at step 8; a recovery scheduled as `simNow + 6` would fall before the infection recorded at `now` -/
example : leOpt (some (16 : Rat)) (oadd (some 8) (some 6)) = false := by decide +kernel
example : (Gen.Sis.setPrognosesTimers 16 8 ⟨6⟩ ⟨false, true⟩ ⟨true⟩ ⟨none, none⟩).ti_recovered = some 22 := by decide +kernel
end timers

/-! ## Where immunity is permanent: cumulative infections = number of distinct agents ever infected -/
section distinct
open InfectionCount

/-- If every infection event hits an agent with no recorded infection — which is what the partition/arrow theorems give
    for SIR, Measles, Ebola, Cholera, HIV and Syphilis (an infected agent never returns to susceptible, and only
    susceptibles are infected) — then over any run the agents passed to `set_prognoses` are pairwise distinct, so the
    total number of infection events, i.e. the final cumulative count of `C13_cum_infections`, is the number of distinct
    agents ever infected. -/
theorem C13_cum_distinct (steps : List (List Nat × List Nat)) (m : TiMap) (t : Nat)
    (hnb : NeverBefore m t steps) (hn : ∀ p ∈ steps, p.2.Nodup) :
    (allEvents steps).Nodup ∧ (steps.map (fun p => p.2.length)).sum = (allEvents steps).length :=
  ⟨events_nodup steps m t hnb hn, sum_lengths_eq steps⟩

/-- the hypothesis is needed and can fail where reinfection is possible: the same agent twice -/
example : ¬ (allEvents [([0, 1], [1]), ([0, 1], [1])]).Nodup := by decide
example : NeverBefore (fun _ => none) 0 [([0, 1, 2], [1]), ([0, 2, 3], [0, 3])] := by
  simp [NeverBefore, infect]
end distinct

/-! ## Whole runs of the composed step model (SIR)

`SimCore.simStep` composes — in the order regenerated from `Loop.collect_funcs` — the regenerated per-agent SIR functions
with the `People` death handling, removal of the dead, births and the `update_results` formulas
(Model/SimCore.lean; compared with real runs step by step and agent by agent on every check).  The statements below hold
for EVERY initial population satisfying the invariant, EVERY event history (who is born, who is infected for how long and
with which outcome, who dies of other causes) and EVERY number of steps. -/
section wholeruns
open StarsimModel.SimCore

/-- **Partition over whole runs.** If every active agent starts alive and in exactly one of S, I, R, then after any
    number of steps with any events — unless `set_prognoses` was called on an agent that was not susceptible and active,
    which the run reports — every active agent is alive and in exactly one of S, I, R. -/
theorem C13_run_partition (s : Sim) (evs : List Events) (h0 : ∀ a ∈ s.pop, Good a) (hb : (run s evs).bad = false) :
    ∀ a ∈ (run s evs).pop, a.present = true → a.alive = true ∧ Sir.partition a.fl = true :=
  fun a ha => run_inv evs s (fun _ => h0) hb a ha

/-- **The dead hold no compartment, when it is recorded.** At the moment the results of a step are recorded every
    active agent is either alive and in exactly one compartment or dead and in none. -/
theorem C13_step_dead_cleared (s : Sim) (ev : Events) (h0 : ∀ a ∈ s.pop, Good a) (hb : (simStep s ev).bad = false) :
    ∀ a ∈ midPop s ev, a.present = true →
      (a.alive = true ∧ Sir.partition a.fl = true) ∨ (a.alive = false ∧ Sir.cleared a.fl = true) :=
  midPop_mid s ev (fun _ => h0) hb

/-- **Recorded compartment sizes add up to the recorded number alive, in every row of every run**, and the recorded
    prevalence is `n_infected / n_alive`. -/
theorem C13_run_rows_balanced (s : Sim) (evs : List Events) (h0 : ∀ a ∈ s.pop, Good a) (hr : s.rows = [])
    (hb : (run s evs).bad = false) :
    ∀ r ∈ (run s evs).rows, r.nS + r.nI + r.nR = r.nAlive ∧ r.prevNum = r.nI ∧ r.prevDen = r.nAlive :=
  run_rows_balanced evs s (fun _ => h0) (by rw [hr]; intro r hr'; cases hr') hb

/-- one row per step, indices consecutive -/
theorem C13_run_rows_length (s : Sim) (evs : List Events) :
    (run s evs).rows.length = s.rows.length + evs.length ∧ (run s evs).ti = s.ti + evs.length :=
  run_rows_length evs s

/-- The admissibility hypothesis cannot be dropped: infecting a recovered agent leaves it in two compartments
    (on the regenerated functions). -/
theorem C13_run_partition_needs_admissible :
    let s : Sim := ⟨0, [⟨true, true, none, ⟨false, false, true⟩, Gen.Sir.Timers.const none⟩], [], false⟩
    let s' := simStep s ⟨0, [], [[⟨0, 1, false⟩]]⟩
    (∀ a ∈ s.pop, Good a) ∧ s'.bad = true ∧ ∃ a ∈ s'.pop, a.present = true ∧ Sir.partition a.fl = false := by
  refine ⟨by intro a ha; simp at ha; subst ha; intro _; decide, by decide +kernel, ?_⟩
  exact ⟨_, List.mem_cons_self .., by decide +kernel, by decide +kernel⟩

/-- non-vacuity: a three-step run with a birth, a background death, an infection that recovers and one that kills -/
def exSim : Sim :=
  ⟨0, [⟨true, true, none, ⟨true, false, false⟩, Gen.Sir.Timers.const none⟩,
       ⟨true, true, none, ⟨false, true, false⟩, ⟨some 0, some (3 / 2), none⟩⟩,
       ⟨true, true, none, ⟨false, true, false⟩, ⟨some 0, none, some 1⟩⟩], [], false⟩
def exEvents : List Events := [⟨1, [], [[⟨0, 5 / 2, false⟩]]⟩, ⟨0, [3], []⟩, ⟨0, [], []⟩]

example : (∀ a ∈ exSim.pop, Good a) ∧ (run exSim exEvents).bad = false := by
  constructor
  · intro a ha; simp only [exSim, List.mem_cons, List.mem_nil_iff, or_false] at ha
    rcases ha with rfl | rfl | rfl <;> intro _ <;> decide
  · decide +kernel
example : (run exSim exEvents).rows =
    [⟨0, 4, 0, 0, 1, 3, 0, 3, 3, 3, 4⟩, ⟨1, 2, 2, 0, 0, 2, 0, 0, 3, 2, 2⟩, ⟨2, 2, 0, 2, 0, 1, 1, 0, 3, 1, 2⟩] := by decide +kernel

/-! ### Closed under the transmission model: the admissibility hypothesis discharged

`SimCore.closedStep` takes the `set_prognoses` call of a step from `Transmission.infect` (Model/Transmission.lean, the
model of `Infection.infect` whose kernel expressions are regenerated from the source and which C12's correspondence ties
to the real transmission step) applied to the population as it stands when transmission runs.  The transmission model's
guarantee — a target is susceptible — discharges the hypothesis `bad = false` of the theorems above. -/

/-- **Partition over whole closed runs, unconditionally**: any networks, edges, betas, compared random numbers (≥ 0),
    relative factors, births, background deaths, prognosis draws, any number of steps. -/
theorem C13_closed_run_partition (s : Sim) (xs : List ClosedEv) (h0 : ∀ a ∈ s.pop, Good a) (hb : s.bad = false)
    (hr : ∀ x ∈ xs, NonnegRands x.nets) :
    (closedRun s xs).bad = false ∧
    ∀ a ∈ (closedRun s xs).pop, a.present = true → a.alive = true ∧ Sir.partition a.fl = true :=
  closedRun_partition xs s h0 hb hr

/-- … and the recorded compartment sizes add up to the recorded number alive in every row. -/
theorem C13_closed_run_rows_balanced (s : Sim) (xs : List ClosedEv) (h0 : ∀ a ∈ s.pop, Good a) (hb : s.bad = false)
    (hrow : s.rows = []) (hr : ∀ x ∈ xs, NonnegRands x.nets) :
    ∀ r ∈ (closedRun s xs).rows, r.nS + r.nI + r.nR = r.nAlive ∧ r.prevNum = r.nI ∧ r.prevDen = r.nAlive :=
  closedRun_rows_balanced xs s h0 hb (by rw [hrow]; intro r h; cases h) hr

/-- non-vacuity: agent 1 (infectious) infects agent 0 over the edge 0–1 in the backward direction in the first step and
    recovers in the second; agent 2 is never reached -/
def exClosed : ClosedEv :=
  { births := 0, background := [], relSus := fun _ => 1, relTrans := fun _ => 1, dur := fun _ => 3, willDie := fun _ => false,
    nets := [{ edges := [{ p1 := 0, p2 := 1, r0 := 1 / 2, r1 := 1 / 4 }, { p1 := 0, p2 := 2, r0 := 9 / 10, r1 := 9 / 10 }], b0 := 1 / 2, b1 := 1 / 2 }] }
def exClosedSim : Sim :=
  ⟨0, [⟨true, true, none, ⟨true, false, false⟩, Gen.Sir.Timers.const none⟩,
       ⟨true, true, none, ⟨false, true, false⟩, ⟨some 0, some 1, none⟩⟩,
       ⟨true, true, none, ⟨true, false, false⟩, Gen.Sir.Timers.const none⟩], [], false⟩
example : NonnegRands exClosed.nets ∧ (closedRun exClosedSim [exClosed, exClosed]).bad = false ∧
    (closedRun exClosedSim [exClosed, exClosed]).rows.map (fun r => (r.nS, r.nI, r.nR)) = [(1, 2, 0), (1, 1, 1)] := by
  refine ⟨?_, by decide +kernel, by decide +kernel⟩
  intro n hn e he d
  simp only [exClosed, List.mem_cons, List.mem_nil_iff, or_false] at hn
  subst hn
  simp only [List.mem_cons, List.mem_nil_iff, or_false] at he
  rcases he with rfl | rfl <;> cases d <;> decide +kernel
/-- **Allowed moves over whole runs.** Along any run of the composed model, for any events, every agent's position on
    S → I → R → (dead: no compartment) never decreases: nobody returns to susceptible, nobody leaves recovered except by
    dying, the dead never regain a compartment (unless an inadmissible `set_prognoses` call is reported). -/
theorem C13_run_allowed_moves (s : Sim) (evs : List Events) (h0 : ∀ a ∈ s.pop, Good a) (hb : (run s evs).bad = false)
    (i : Nat) (a : Agent) (h : s.pop[i]? = some a) :
    ∃ a', (run s evs).pop[i]? = some a' ∧ rank a.fl ≤ rank a'.fl :=
  run_monotone evs s h0 hb i a h

/-- the same for closed runs, with no admissibility hypothesis -/
theorem C13_closed_run_allowed_moves (s : Sim) (xs : List ClosedEv) (h0 : ∀ a ∈ s.pop, Good a) (hb : s.bad = false)
    (hr : ∀ x ∈ xs, NonnegRands x.nets) (i : Nat) (a : Agent) (h : s.pop[i]? = some a) :
    ∃ a', (closedRun s xs).pop[i]? = some a' ∧ rank a.fl ≤ rank a'.fl :=
  closedRun_monotone xs s h0 hb hr i a h

/-- **Infection needs an infectious source**: every target of the `set_prognoses` call of a closed step was reached from an
    agent that is active and infected (SIR: infectious) in the state transmission read. -/
theorem C13_closed_infection_needs_source (s : Sim) (x : ClosedEv) (hr : NonnegRands x.nets) (e : Inf)
    (he : e ∈ closedCall s x) :
    ∃ (u : Nat) (a : Agent), (preInfect s x).pop[u]? = some a ∧ a.present = true ∧ a.fl.infected = true :=
  closedCall_needs_source s x hr e he

/-- **The disease-free state is absorbing**: from any population in which nobody is flagged infected — over any networks,
    betas, random numbers (≥ 0), births, deaths and prognosis draws, and any number of steps — nobody is ever infected and
    every recorded row has `n_infected = 0`.  No compartment is entered out of nothing. -/
theorem C13_closed_disease_free_absorbing (s : Sim) (xs : List ClosedEv) (h0 : NoInf s.pop)
    (hr : ∀ x ∈ xs, NonnegRands x.nets) :
    NoInf (closedRun s xs).pop ∧ ∃ rs : List Row, (closedRun s xs).rows = s.rows ++ rs ∧ rs.length = xs.length ∧
      ∀ r ∈ rs, r.nI = 0 :=
  closedRun_noInf xs s h0 hr

/-- non-vacuity: the example networks over a population of three susceptible agents (nobody infected); and the hypothesis
    is needed — with agent 1 infected (`exClosedSim`) the same inputs give `n_infected = 2` in the first row (example above) -/
example : NoInf ([newborn, newborn, newborn] : List Agent) ∧
    (closedRun ⟨0, [newborn, newborn, newborn], [], false⟩ [exClosed, exClosed]).rows.map (fun r => (r.nS, r.nI, r.nR)) =
      [(3, 0, 0), (3, 0, 0)] := by
  refine ⟨?_, by decide +kernel⟩
  intro a ha
  simp only [List.mem_cons, List.mem_nil_iff, or_false] at ha
  rcases ha with rfl | rfl | rfl <;> rfl

/-- identifiers and life status over closed runs (no hypotheses at all) -/
theorem C13_closed_run_ids_and_life (s : Sim) (xs : List ClosedEv) :
    (closedRun s xs).pop.length = s.pop.length + sumNat (xs.map (·.births)) ∧
    ∀ (i : Nat) (a : Agent), s.pop[i]? = some a →
      ∃ a', (closedRun s xs).pop[i]? = some a' ∧ (a.alive = false → a'.alive = false) ∧
        (a.present = false → a'.present = false) :=
  ⟨closedRun_length xs s, closedRun_life xs s⟩

/-- an inactive agent is not touched by a step at all -/
theorem C13_step_inactive_frozen (s : Sim) (ev : Events) (h0 : ∀ a ∈ s.pop, Good a) (hb : (simStep s ev).bad = false)
    (i : Nat) (a : Agent) (h : s.pop[i]? = some a) (hp : a.present = false) :
    ∃ a', (simStep s ev).pop[i]? = some a' ∧ a'.fl = a.fl ∧ a'.present = false := by
  obtain ⟨a', g, _, z⟩ := simStep_monotone s ev h0 hb i a h
  exact ⟨a', g, (z hp).1, (z hp).2⟩
end wholeruns

end StarsimModel.C13
