/-
C13 — Disease compartments partition the living and follow allowed moves.

Property theorems only.  The per-agent transition functions `Gen.<D>.stepState / setPrognoses / stepDie` are
REGENERATED from /repo/starsim/diseases/*.py and starsim/disease.py on every run (harness/extractors/diseases.py);
the partitions and arrow relations are hand-written in Model/Compartments.lean.  Every theorem quantifies over ALL
flag valuations and ALL valuations of the guard atoms (timer comparisons, Bernoulli outcomes, membership in the
`uids` argument) and is proved by `decide +kernel` over that complete finite space — a proof, not a sample.

Hypotheses that appear:
* `g.p_uids = true → s.susceptible = true`: `set_prognoses` is only called on susceptible agents (that is property
  C12; the correspondence checks it on every observed call);
* a relation between timer comparisons where the code needs one (Measles: recovery due ⇒ infection due;
  Syphilis: a congenital outcome falls due only on a still-susceptible infant); checked on every observed agent-step.

Where today's code breaks the partition (Measles, Cholera: `exposed ∧ infected`; HIV: the dead keep `infected`)
the `_counterexample` theorem exhibits it on the regenerated model and the `_partial` theorem states what does hold.
-/
import StarsimModel.Model.Compartments
import StarsimModel.Lemmas.InfectionCount

namespace StarsimModel.C13
open StarsimModel.Compartments

/-! ## SIR -/
section sir
open Gen.Sir

/-- exactly-one-of S/I/R is preserved by `step_state` (every timer outcome) and by `set_prognoses` on susceptibles -/
theorem C13_sir_partition : ∀ s : Flags, Sir.partition s = true →
    (∀ g : StepStateG, Sir.partition (stepState s g) = true) ∧
    (∀ g : SetPrognosesG, (g.p_uids = true → s.susceptible = true) → Sir.partition (setPrognoses s g) = true) := by
  decide +kernel

/-- `step_die` leaves the agents it is called on with no compartment and the others untouched -/
theorem C13_sir_dead_clear : hasStepDie = true ∧ ∀ (s : Flags) (g : StepDieG),
    (g.p_uids = true → Sir.cleared (stepDie s g) = true) ∧ (g.p_uids = false → stepDie s g = s) := by
  decide +kernel

/-- only allowed arrows: `step_state` keeps the compartment or moves I → R; `set_prognoses` moves exactly the agents
    it is called on, S → I -/
theorem C13_sir_arrows : ∀ s : Flags, Sir.partition s = true →
    (∀ g : StepStateG, Sir.stepArrow (Sir.comp s) (Sir.comp (stepState s g)) = true) ∧
    (∀ g : SetPrognosesG, (g.p_uids = true → s.susceptible = true) →
        Sir.infectArrow (Sir.comp s) (Sir.comp (setPrognoses s g)) = true ∧
        (g.p_uids = true → Sir.comp (setPrognoses s g) = .I) ∧ (g.p_uids = false → setPrognoses s g = s)) := by
  decide +kernel

/-- no recovery without infection, and no return to susceptible (immunity is permanent) -/
theorem C13_sir_no_recovery_without_infection : ∀ (s : Flags) (g : StepStateG), Sir.partition s = true →
    ((stepState s g).recovered = true → s.recovered = true ∨ s.infected = true) ∧
    ((stepState s g).susceptible = true → s.susceptible = true) ∧
    (s.recovered = true → (stepState s g).recovered = true) := by
  decide +kernel

example : Sir.partition { susceptible := false, infected := true, recovered := false } = true := by decide
example : Sir.comp (stepState { susceptible := false, infected := true, recovered := false } ⟨true⟩) = .R := by decide
end sir

/-! ## SIS -/
section sis
open Gen.Sis

theorem C13_sis_partition : ∀ s : Flags, Sis.partition s = true →
    (∀ g : StepStateG, Sis.partition (stepState s g) = true) ∧
    (∀ g : SetPrognosesG, (g.p_uids = true → s.susceptible = true) → Sis.partition (setPrognoses s g) = true) := by
  decide +kernel

theorem C13_sis_arrows : ∀ s : Flags, Sis.partition s = true →
    (∀ g : StepStateG, Sis.stepArrow (Sis.comp s) (Sis.comp (stepState s g)) = true) ∧
    (∀ g : SetPrognosesG, (g.p_uids = true → s.susceptible = true) →
        Sis.infectArrow (Sis.comp s) (Sis.comp (setPrognoses s g)) = true ∧
        (g.p_uids = true → Sis.comp (setPrognoses s g) = .I) ∧ (g.p_uids = false → setPrognoses s g = s)) := by
  decide +kernel

/-- SIS has no disease deaths: `step_die` is the inherited no-op -/
theorem C13_sis_step_die_noop : ∀ (s : Flags) (g : StepDieG), stepDie s g = s := by decide +kernel

example : Sis.comp (stepState { susceptible := false, infected := true } ⟨true⟩) = .S := by decide
end sis

/-! ## Measles -/
section measles
open Gen.Measles

/-- TODAY'S CODE BREAKS THE PARTITION: `Measles.set_prognoses` calls the inherited `SIR.set_prognoses`, which sets
    `infected`, and then sets `exposed`: a newly infected susceptible agent is exposed AND infected. -/
theorem C13_measles_partition_counterexample :
    let s : Flags := { susceptible := true, infected := false, recovered := false, exposed := false }
    Measles.partition s = true ∧ Measles.partition (setPrognoses s ⟨true⟩) = false ∧
    Measles.comp (setPrognoses s ⟨true⟩) = .EI := by
  decide +kernel

/-- What does hold: susceptible / exposed-or-infected / recovered stay mutually exclusive and exhaustive, provided
    recovery never falls due before infection (`ti_recovered = ti_infected + dur_inf`, `dur_inf ≥ 0`). -/
theorem C13_measles_partition_partial : ∀ s : Flags, Measles.weakPartition s = true →
    (∀ g : StepStateG, (g.c_ti_recovered_le = true → g.c_ti_infected_le = true) → Measles.weakPartition (stepState s g) = true) ∧
    (∀ g : SetPrognosesG, (g.p_uids = true → s.susceptible = true) → Measles.weakPartition (setPrognoses s g) = true) := by
  decide +kernel

/-- the timer hypothesis of `C13_measles_partition_partial` is needed: without it an exposed∧infected agent becomes
    exposed∧recovered -/
theorem C13_measles_timer_hypothesis_needed :
    let s : Flags := { susceptible := false, infected := true, recovered := false, exposed := true }
    Measles.weakPartition s = true ∧
    Measles.weakPartition (stepState s { c_ti_infected_le := false, c_ti_recovered_le := true }) = false := by
  decide +kernel

/-- once the (proper) partition holds, `step_state` keeps it: the defect is confined to `set_prognoses` -/
theorem C13_measles_step_state_partition : ∀ (s : Flags) (g : StepStateG), Measles.partition s = true →
    Measles.partition (stepState s g) = true := by
  decide +kernel

theorem C13_measles_dead_clear : hasStepDie = true ∧ ∀ (s : Flags) (g : StepDieG),
    (g.p_uids = true → Measles.cleared (stepDie s g) = true) ∧ (g.p_uids = false → stepDie s g = s) := by
  decide +kernel

theorem C13_measles_arrows : ∀ s : Flags, Measles.weakPartition s = true →
    (∀ g : StepStateG, (g.c_ti_recovered_le = true → g.c_ti_infected_le = true) →
        Measles.stepArrow (Measles.comp s) (Measles.comp (stepState s g)) = true) ∧
    (∀ g : SetPrognosesG, (g.p_uids = true → s.susceptible = true) →
        Measles.infectArrow (Measles.comp s) (Measles.comp (setPrognoses s g)) = true ∧
        (g.p_uids = false → setPrognoses s g = s)) := by
  decide +kernel

example : Measles.weakPartition { susceptible := false, infected := true, recovered := false, exposed := true } = true := by decide
example : (({ c_ti_infected_le := true, c_ti_recovered_le := true } : StepStateG).c_ti_recovered_le = true →
           ({ c_ti_infected_le := true, c_ti_recovered_le := true } : StepStateG).c_ti_infected_le = true) := by decide
end measles

/-! ## Ebola -/
section ebola
open Gen.Ebola

/-- exactly-one-of S/E/I/R with `severe ⊆ infected` is preserved (Ebola does not call the inherited set_prognoses) -/
theorem C13_ebola_partition : ∀ s : Flags, Ebola.partition s = true →
    (∀ g : StepStateG, Ebola.partition (stepState s g) = true) ∧
    (∀ g : SetPrognosesG, (g.p_uids = true → s.susceptible = true) → Ebola.partition (setPrognoses s g) = true) := by
  decide +kernel

theorem C13_ebola_dead_clear : hasStepDie = true ∧ ∀ (s : Flags) (g : StepDieG),
    (g.p_uids = true → Ebola.cleared (stepDie s g) = true) ∧ (g.p_uids = false → stepDie s g = s) := by
  decide +kernel

theorem C13_ebola_arrows : ∀ s : Flags, Ebola.partition s = true →
    (∀ g : StepStateG, Ebola.stepArrow (Ebola.comp s) (Ebola.comp (stepState s g)) = true) ∧
    (∀ g : SetPrognosesG, (g.p_uids = true → s.susceptible = true) →
        Ebola.infectArrow (Ebola.comp s) (Ebola.comp (setPrognoses s g)) = true ∧
        (g.p_uids = true → Ebola.comp (setPrognoses s g) = .E) ∧ (g.p_uids = false → setPrognoses s g = s)) := by
  decide +kernel

/-- `buried` is only ever set (never cleared) by the disease's own methods and never touches the partition flags -/
theorem C13_ebola_buried_monotone : ∀ (s : Flags), s.buried = true →
    (∀ g : StepStateG, (stepState s g).buried = true) ∧ (∀ g : SetPrognosesG, (setPrognoses s g).buried = true) ∧
    (∀ g : StepDieG, (stepDie s g).buried = true) := by
  decide +kernel

example : Ebola.partition { susceptible := false, infected := true, recovered := false, exposed := false, severe := true, buried := false } = true := by decide
end ebola

/-! ## Cholera -/
section cholera
open Gen.Cholera

/-- TODAY'S CODE BREAKS THE PARTITION: `Cholera.step_state` sets `infected` for an exposed agent whose infection time
    has passed but does not clear `exposed`. -/
theorem C13_cholera_partition_counterexample :
    let s : Flags := { susceptible := false, infected := false, exposed := true, symptomatic := false, recovered := false }
    let g : StepStateG := { c_ti_infected_le := true, c_ti_symptomatic_le := false, c_ti_recovered_le := false }
    Cholera.partition s = true ∧ Cholera.partition (stepState s g) = false ∧ Cholera.comp (stepState s g) = .EI := by
  decide +kernel

/-- What does hold (no timer hypothesis needed): susceptible / exposed-or-infected / recovered are mutually exclusive
    and exhaustive, and `symptomatic ⊆ infected`. -/
theorem C13_cholera_partition_partial : ∀ s : Flags, Cholera.weakPartition s = true →
    (∀ g : StepStateG, Cholera.weakPartition (stepState s g) = true) ∧
    (∀ g : SetPrognosesG, (g.p_uids = true → s.susceptible = true) → Cholera.weakPartition (setPrognoses s g) = true) := by
  decide +kernel

theorem C13_cholera_dead_clear : hasStepDie = true ∧ ∀ (s : Flags) (g : StepDieG),
    (g.p_uids = true → Cholera.cleared (stepDie s g) = true) ∧ (g.p_uids = false → stepDie s g = s) := by
  decide +kernel

theorem C13_cholera_arrows : ∀ s : Flags, Cholera.weakPartition s = true →
    (∀ g : StepStateG, Cholera.stepArrow (Cholera.comp s) (Cholera.comp (stepState s g)) = true) ∧
    (∀ g : SetPrognosesG, (g.p_uids = true → s.susceptible = true) →
        Cholera.infectArrow (Cholera.comp s) (Cholera.comp (setPrognoses s g)) = true ∧
        (g.p_uids = true → Cholera.comp (setPrognoses s g) = .E) ∧ (g.p_uids = false → setPrognoses s g = s)) := by
  decide +kernel

example : Cholera.weakPartition { susceptible := false, infected := true, exposed := true, symptomatic := true, recovered := false } = true := by decide
end cholera

/-! ## Gonorrhea -/
section gonorrhea
open Gen.Gonorrhea

theorem C13_gonorrhea_partition : ∀ s : Flags, Gonorrhea.partition s = true →
    (∀ g : StepStateG, Gonorrhea.partition (stepState s g) = true) ∧
    (∀ g : SetPrognosesG, (g.p_uids = true → s.susceptible = true) → Gonorrhea.partition (setPrognoses s g) = true) := by
  decide +kernel

theorem C13_gonorrhea_arrows : ∀ s : Flags, Gonorrhea.partition s = true →
    (∀ g : StepStateG, Gonorrhea.stepArrow (Gonorrhea.comp s) (Gonorrhea.comp (stepState s g)) = true) ∧
    (∀ g : SetPrognosesG, (g.p_uids = true → s.susceptible = true) →
        Gonorrhea.infectArrow (Gonorrhea.comp s) (Gonorrhea.comp (setPrognoses s g)) = true ∧
        (g.p_uids = true → Gonorrhea.comp (setPrognoses s g) = .I) ∧ (g.p_uids = false → setPrognoses s g = s)) := by
  decide +kernel

example : Gonorrhea.partition { susceptible := false, infected := true, symptomatic := true } = true := by decide
end gonorrhea

/-! ## HIV -/
section hiv
open Gen.Hiv

theorem C13_hiv_partition : ∀ s : Flags, Hiv.partition s = true →
    (∀ g : StepStateG, Hiv.partition (stepState s g) = true) ∧
    (∀ g : SetPrognosesG, (g.p_uids = true → s.susceptible = true) → Hiv.partition (setPrognoses s g) = true) := by
  decide +kernel

/-- no recovery: `step_state` never changes a flag; infection moves exactly the agents it is called on, S → I -/
theorem C13_hiv_arrows : ∀ s : Flags, Hiv.partition s = true →
    (∀ g : StepStateG, stepState s g = s) ∧
    (∀ g : SetPrognosesG, (g.p_uids = true → s.susceptible = true) →
        Hiv.infectArrow (Hiv.comp s) (Hiv.comp (setPrognoses s g)) = true ∧
        (g.p_uids = true → Hiv.comp (setPrognoses s g) = .I) ∧ (g.p_uids = false → setPrognoses s g = s)) := by
  decide +kernel

/-- TODAY'S CODE: HIV requests deaths (`people.request_death`) but inherits the empty `Disease.step_die`, so an
    agent who dies of HIV keeps `infected` (and is still counted by `n_infected` on the step of death). -/
theorem C13_hiv_dead_clear_counterexample : requestsDeath = true ∧ hasStepDie = false ∧
    (let s : Flags := { susceptible := false, infected := true, on_art := false }
     Hiv.partition s = true ∧ ∀ g : StepDieG, Hiv.cleared (stepDie s g) = false) := by
  decide +kernel

/-- what does hold for the dead: `step_die` changes nothing, so they keep exactly the compartment they died in -/
theorem C13_hiv_dead_clear_partial : ∀ (s : Flags) (g : StepDieG), stepDie s g = s := by decide +kernel

example : Hiv.partition { susceptible := false, infected := true, on_art := true } = true := by decide
end hiv

/-! ## Syphilis -/
section syphilis
open Gen.Syphilis

/-- exactly one of susceptible / exposed / primary / secondary / latent_temp / latent_long / tertiary / congenital,
    with `infected` ⇔ adult stage, is preserved by `step_state` for every timer outcome — provided a congenital outcome
    only falls due for a still-susceptible agent — and by `set_prognoses` on susceptibles. -/
theorem C13_syphilis_partition : ∀ s : Flags, Syphilis.partition s = true →
    (∀ g : StepStateG, (g.c_ti_congenital_eq = true → s.susceptible = true) → Syphilis.partition (stepState s g) = true) ∧
    (∀ g : SetPrognosesG, (g.p_uids = true → s.susceptible = true) → Syphilis.partition (setPrognoses s g) = true) := by
  decide +kernel

theorem C13_syphilis_arrows : ∀ s : Flags, Syphilis.partition s = true →
    (∀ g : StepStateG, (g.c_ti_congenital_eq = true → s.susceptible = true) →
        Syphilis.stepArrow (Syphilis.comp s) (Syphilis.comp (stepState s g)) = true ∧
        (s.ever_exposed = true → (stepState s g).ever_exposed = true)) ∧
    (∀ g : SetPrognosesG, (g.p_uids = true → s.susceptible = true) →
        Syphilis.infectArrow (Syphilis.comp s) (Syphilis.comp (setPrognoses s g)) = true ∧
        (g.p_uids = true → Syphilis.comp (setPrognoses s g) = .exposed ∧ (setPrognoses s g).ever_exposed = true) ∧
        (g.p_uids = false → setPrognoses s g = s)) := by
  decide +kernel

example : Syphilis.partition {
    susceptible := false, infected := true, exposed := false, primary := false, secondary := true,
    latent_temp := false, latent_long := false, tertiary := false, immune := false, ever_exposed := true,
    congenital := false } = true := by decide
end syphilis

/-! ## Infectious agents are never susceptible (every disease, under what its code keeps today) -/
theorem C13_infectious_not_susceptible :
    (∀ s : Gen.Sir.Flags, Sir.partition s = true → Gen.Sir.infectious s = true → s.susceptible = false) ∧
    (∀ s : Gen.Sis.Flags, Sis.partition s = true → Gen.Sis.infectious s = true → s.susceptible = false) ∧
    (∀ s : Gen.Measles.Flags, Measles.weakPartition s = true → Gen.Measles.infectious s = true → s.susceptible = false) ∧
    (∀ s : Gen.Ebola.Flags, Ebola.partition s = true → Gen.Ebola.infectious s = true → s.susceptible = false) ∧
    (∀ s : Gen.Cholera.Flags, Cholera.weakPartition s = true → Gen.Cholera.infectious s = true → s.susceptible = false) ∧
    (∀ s : Gen.Gonorrhea.Flags, Gonorrhea.partition s = true → Gen.Gonorrhea.infectious s = true → s.susceptible = false) ∧
    (∀ s : Gen.Hiv.Flags, Hiv.partition s = true → Gen.Hiv.infectious s = true → s.susceptible = false) ∧
    (∀ s : Gen.Syphilis.Flags, Syphilis.partition s = true → Gen.Syphilis.infectious s = true → s.susceptible = false) := by
  decide +kernel

/-! ## Infection counts: cumulative infections = number of infection events -/
section counts
open InfectionCount

/-- The diseases whose `set_prognoses` leaves `ti_infected` = the current step for every agent it is called on
    (regenerated fact): for these the counting theorem below applies. -/
theorem C13_infection_time_recorded :
    Gen.Sir.infectionTimeIsNow = true ∧ Gen.Sis.infectionTimeIsNow = true ∧ Gen.Gonorrhea.infectionTimeIsNow = true ∧
    Gen.Hiv.infectionTimeIsNow = true ∧ Gen.Syphilis.infectionTimeIsNow = true := by decide

/-- TODAY'S CODE: Measles, Ebola and Cholera overwrite `ti_infected` with a future (fractional) time in `set_prognoses`,
    so `count_nonzero(ti_infected == ti)` never counts an infection: `new_infections ≡ 0` (known finding). -/
theorem C13_infection_time_counterexample :
    Gen.Measles.infectionTimeIsNow = false ∧ Gen.Ebola.infectionTimeIsNow = false ∧ Gen.Cholera.infectionTimeIsNow = false := by decide

/-- **Counting.** If every infection records the current step (`infect`), then for every run — any sequence of steps,
    each with its own active population `pop` (births, deaths) and its own duplicate-free set `us ⊆ pop` of agents passed
    to `set_prognoses` (`Infection.infect` de-duplicates), starting from any state whose recorded times are all earlier —
    the recorded `new_infections` series is exactly the number of infection events per step, and `cum_infections[i]`
    is the number of infection events up to and including step `i`. -/
theorem C13_cum_infections (steps : List (List Nat × List Nat)) (m : TiMap) (t : Nat) (h : Before m t)
    (hs : ∀ p ∈ steps, p.1.Nodup ∧ p.2.Nodup ∧ ∀ u ∈ p.2, u ∈ p.1) :
    run m t steps = steps.map (fun p => p.2.length) ∧
    ∀ (i : Nat) (hi : i < (cumulative (run m t steps)).length),
      (cumulative (run m t steps))[i] = ((steps.map (fun p => p.2.length)).take (i + 1)).sum := by
  have hr := run_eq_events steps m t h hs
  refine ⟨hr, fun i hi => ?_⟩
  rw [cumulative_getElem _ i hi, hr]

/-- non-vacuity: two steps, a birth and a death in between, three events -/
example : run (fun _ => none) 0 [([0, 1, 2], [1]), ([0, 2, 3], [0, 3])] = [1, 2] := by decide
example : cumulative [1, 2, 0, 4] = [1, 3, 3, 7] := by decide
/-- without the `infect`-records-now rule nothing is counted: a future time never equals the step -/
example : newInfections (fun u => if u = 1 then some 7 else none) [0, 1, 2] 0 = 0 := by decide
end counts

end StarsimModel.C13
