/-
C01 — Same configuration and seed give bit-identical simulations  (PARTIAL: footprints are regenerated
statically and validated dynamically, not proved from Python semantics — DESIGN §8).
-/
import StarsimModel.Model.Footprint
import StarsimModel.Model.Rng
import StarsimModel.Generated.GlobalReads
import StarsimModel.Generated.SeedFacts
import StarsimModel.Generated.RngConsts
import StarsimModel.Generated.DistSites
import StarsimModel.Lemmas.RngFrame

namespace StarsimModel.C01
open StarsimModel.Footprint StarsimModel.Rng

/-- **Non-interference.** If no scheduled function lets the hidden environment influence the simulation state,
    then for any two initial environments and any two sequences of perturbations inserted at the function
    boundaries, the final simulation states are equal.  (Induction over the plan; any length.) -/
theorem C01_noninterference {σ ε : Type} (plan : List (Func σ ε)) (hpure : ∀ f ∈ plan, EnvIndependent f) :
    ∀ (pert pert' : Nat → ε → ε) (i j : Nat) (s : σ) (e e' : ε),
      (runPlan pert i plan s e).1 = (runPlan pert' j plan s e').1 := by
  induction plan with
  | nil => intro _ _ _ _ s e e'; rfl
  | cons f fs ih =>
      intro pert pert' i j s e e'
      simp only [runPlan]
      have hf := hpure f (List.mem_cons_self ..)
      rw [hf s (pert i e) (pert' j e')]
      exact ih (fun g hg => hpure g (List.mem_cons_of_mem _ hg)) pert pert' (i + 1) (j + 1) _ _ _

/-- **Twin.** A copy of the simulation run after the original, in whatever environment the original left behind,
    ends in the same state. -/
theorem C01_twin {σ ε : Type} (plan : List (Func σ ε)) (hpure : ∀ f ∈ plan, EnvIndependent f) (s : σ) (e : ε) :
    (runPlan (fun _ x => x) 0 plan s (runPlan (fun _ x => x) 0 plan s e).2).1 = (runPlan (fun _ x => x) 0 plan s e).1 :=
  C01_noninterference plan hpure _ _ 0 0 s _ e

/-- The hypothesis cannot be dropped: a step that reads the environment (as `Births.get_births` reads the global
    NumPy generator) gives different results in different environments. -/
def birthsLike : Func Nat Nat := ⟨fun s e => (s + e % 2, e + 1)⟩

theorem C01_reader_counterexample :
    ¬ EnvIndependent birthsLike ∧
    (runPlan (fun _ x => x) 0 [birthsLike] 0 0).1 ≠ (runPlan (fun _ x => x) 0 [birthsLike] 0 1).1 := by
  constructor
  · intro h; have := h 0 0 1; simp [birthsLike] at this
  · decide

/-- non-vacuity: an environment-independent plan -/
example : ∀ f ∈ [(⟨fun s e => (s + 1, e + 1)⟩ : Func Nat Nat), ⟨fun s e => (2 * s, e)⟩], EnvIndependent f := by
  intro f hf
  simp only [List.mem_cons, List.mem_nil_iff, or_false] at hf
  rcases hf with rfl | rfl <;> intro s e e' <;> rfl

/-! ### Which functions read the environment: the regenerated table

`Gen.globalReads` lists every call in simulation code to a module-level NumPy random function, `sc.randround`,
the stdlib `random` module or `hash()`.  The known readers below are the genuine defects recorded in
known_findings.json (C01); any other row makes this theorem fail. -/

def knownReaders : List (String × String) :=
  [ ("Births", "get_births"), ("NCD", "init_post"), ("NCD", "step"), ("sir_vaccine", "administer"),
    ("Syphilis", "set_congenital"), ("Syphilis", "set_latent_long_prognoses"), ("Syphilis", "set_latent_temp_prognoses"),
    ("Syphilis", "set_prognoses"), ("Syphilis", "set_secondary_prognoses"), ("RandomNet", "add_pairs"),
    ("", "set_seed"),    -- set_seed draws a seed for numba only when called with seed=None (not from Sim.init)
    ("Tx", "administer"),    -- iterates a set of agent uids (integers: their set order does not depend on the hash seed)
    ("Loop", "__repr__"),    -- display only: a set of array lengths (integers)
    ("", "diff_sims") ]      -- compares two finished simulations: the set differences only order the key names in its message

theorem C01_readers_are_known :
    ∀ r ∈ Gen.globalReads, (r.2.1, r.2.2.1) ∈ knownReaders := by decide

/-- No simulation class keeps mutable state at class level or in a default argument: such an object is created once
    per process and shared by every simulation that is created or run in it (a hidden channel between "other
    simulations created or run before or in between" and this one). -/
theorem C01_no_shared_mutable_state : Gen.sharedMutables = [] := by decide

/-- the only writes to the global generators are the deliberate reseeding in `set_seed` -/
theorem C01_writes_are_reseeding :
    ∀ r ∈ Gen.globalWrites, r.1 = "starsim/utils.py" ∧ r.2.2.2 = "write:np.random.seed" := by decide

/-! ### Every stream is a function of its own history

A draw is identified by the seed of its distribution and the generator position it starts from
(`default_rng(seed)`, jumped `ind` times, advanced by the sizes drawn since).  In a simulation with any number of
distributions, the positions a distribution draws from are determined by the operations addressed to IT: nothing that
happens to another distribution — in this simulation or in any other run in the same process — enters. -/

/-- **Stream determinism.** Two executions (possibly with different other distributions, different interleavings) in
    which a distribution has the same seed state and receives the same operations use exactly the same
    `(seed, position)` pairs for its draws, in the same order. -/
theorem C01_stream_deterministic (ds ds' : List Dist) (ops ops' : List (Nat × Op)) (i k : Nat) (d : Dist)
    (h : ds[i]? = some d) (h' : ds'[k]? = some d) (hops : opsOf i ops = opsOf k ops') :
    (logOf i (runMany ds ops).2).map (fun p => (d.seed, p)) = (logOf k (runMany ds' ops').2).map (fun p => (d.seed, p)) := by
  rw [(runMany_frame ds ds' ops ops' i k d h h' hops).1]

/-! ### Seeds -/

/-- How the code derives a distribution's seed — facts extracted SEMANTICALLY from the source on every run (robust to
    renaming and re-ordering, sensitive to what is computed): the hashed name is the distribution's path, hashed by a
    process-independent digest reduced modulo the public modulus (never the interpreter's randomised `hash()`), the
    generator is `default_rng(seed)`, every distribution found by the path search is initialised with its path and the
    simulation seed, and `Sim.init` reseeds the legacy global generators with that same seed. -/
theorem C01_seed_derivation :
    Gen.Seed.namePrefersTrace = true ∧ Gen.Seed.offsetHashesName = true ∧
    Gen.Seed.usesBuiltinHash = false ∧ Gen.Seed.usesStableDigest = true ∧ Gen.Seed.reducesModulo = true ∧
    Gen.Seed.rngFromSeed = true ∧ Gen.Seed.searchByPath = true ∧ Gen.Seed.initPassesTraceAndSeed = true ∧
    Gen.Seed.simReseeds = true ∧ Gen.Seed.simDistsWithSeed = true := by decide

/-- The seed formula translated from `Dist.process_seed` is the model's: path hash plus (seed argument, or the previous
    seed when the argument is 0 / None) — for all values. -/
theorem C01_seed_formula_is_model (offset prev : Nat) (arg : Option Nat) :
    Gen.Seed.seedFormula offset (arg.getD 0) prev = offset + orSeed arg prev := by
  unfold Gen.Seed.seedFormula Gen.Seed.pyOr orSeed
  cases arg with
  | none => by_cases h : prev = 0 <;> simp [h] <;> omega
  | some k => by_cases h : k = 0 <;> by_cases h2 : prev = 0 <;> simp [h, h2] <;> omega

/-- **Seed formula.** A freshly created distribution initialised with path hash `offset` and simulation seed
    `randSeed` gets `offset + randSeed` — for every `randSeed`, including 0. -/
theorem C01_seed_formula (strict auto : Bool) (offset randSeed : Nat) (force : Bool) :
    (step (fresh strict auto) (.init offset (some randSeed) force)).1.seed = offset + randSeed := by
  simp only [step, fresh, orSeed]
  by_cases h : randSeed = 0 <;> simp [h]

/-- **Changing the seed changes every distribution's seed.** -/
theorem C01_seed_changes_all (strict auto : Bool) (offset r r' : Nat) (force : Bool) (h : r ≠ r') :
    (step (fresh strict auto) (.init offset (some r) force)).1.seed ≠
    (step (fresh strict auto) (.init offset (some r') force)).1.seed := by
  rw [C01_seed_formula, C01_seed_formula]; omega

/-! ### Distributions the simulation never seeds

`Sim.init_dists` hands `rand_seed` to the distribution objects reachable from the simulation AT THAT MOMENT.  A
distribution constructed later (inside `step`, `administer`, `init_post`, …) or one that initialises itself
(`strict=False`: `Dist.__init__` calls `self.init()`, i.e. `process_seed(None, None)`) is seeded with the `none`
argument.  `seedIn registered offset r` is the seed a freshly constructed distribution with path hash `offset` ends up
with in a simulation whose seed is `r`. -/

def seedIn (registered : Bool) (strict auto : Bool) (offset r : Nat) : Nat :=
  (step (fresh strict auto) (.init offset (if registered then some r else none) false)).1.seed

/-- **Changing the seed changes every stream — for registered distributions** (the hypothesis is what the regenerated
    `Gen.DistSites` facts and the stream census of every reference run establish). -/
theorem C01_seed_changes_every_stream_partial (strict auto : Bool) (offset r r' : Nat) (h : r ≠ r') :
    seedIn true strict auto offset r ≠ seedIn true strict auto offset r' := by
  unfold seedIn; simpa using C01_seed_changes_all strict auto offset r r' false h

/-- A distribution that seeds itself gets the hash of its name and nothing else: the simulation seed does not enter. -/
theorem C01_self_seeded_ignores_sim_seed (strict auto : Bool) (offset r : Nat) :
    seedIn false strict auto offset r = offset := by
  simp [seedIn, step, fresh, orSeed]

/-- … so the full statement fails without the hypothesis: an unregistered distribution has the same seed, hence
    (`default_rng(seed)`) the same stream, in simulations with different seeds. -/
theorem C01_seed_changes_every_stream_counterexample :
    ∃ (offset r r' : Nat), r ≠ r' ∧ seedIn false true true offset r = seedIn false true true offset r' :=
  ⟨7, 1, 2, by decide, by decide⟩

/-- non-vacuity: a registered distribution in two simulations -/
example : seedIn true true true 7 1 = 8 ∧ seedIn true true true 7 2 = 9 := by decide

/-- **Every distribution exists before the seeds are handed out, and none seeds itself** (regenerated from the source on
    every run): distribution objects are constructed in `__init__`, in `init_pre` or in `People.get_age_dist` (called from
    `People.__init__`) only; `Sim.init` runs `init_people` and every `init_pre` before `init_dists`, and `init_dists`
    before the first values are drawn (`init_vals` / `init_post`); no construction passes `strict=` anything but `True`. -/
theorem C01_dists_exist_before_seeding :
    (∀ r ∈ Gen.DistSites.lateDists, r.2.2.1 = "init_pre" ∨ (r.2.1, r.2.2.1) = ("People", "get_age_dist")) ∧
    Gen.DistSites.selfSeeded = [] ∧
    Gen.DistSites.initPreBeforeInitDists = true ∧ Gen.DistSites.initDistsBeforeInitPost = true := by decide

/-- The only generator simulation code ever constructs is a distribution's own, from its seed (`Dist.init`:
    `np.random.default_rng(seed=self.seed)`): no module keeps a private generator seeded with anything else. -/
theorem C01_only_dists_own_generators :
    Gen.DistSites.rngConstructors =
      [("starsim/distributions.py", "Dist", "init", "np.random.default_rng(seed=self.seed)")] := by decide

/-- Re-initialising an already initialised distribution: the formula holds whenever the new simulation seed is
    non-zero … -/
theorem C01_seed_reinit_partial (d : Dist) (offset randSeed : Nat) (force : Bool) (h : randSeed ≠ 0) :
    (step d (.init offset (some randSeed) force)).1.seed = offset + randSeed := by
  simp [step, orSeed, h]

/-- … but with simulation seed 0 the previous seed is reused (`seed or self.seed`): re-initialising an initialised
    distribution doubles the path hash (reproduced on the real code: `sim.dists.init(obj=sim, base_seed=0, force=True)`). -/
theorem C01_seed_reinit_counterexample :
    ∃ (d : Dist) (offset : Nat), d.initialized = true ∧
      (step d (.init offset (some 0) true)).1.seed ≠ offset + 0 :=
  ⟨(step (fresh true true) (.init 7 (some 0) false)).1, 7, by decide, by decide⟩

end StarsimModel.C01
