/-
C19 — Ageing, parentage and pregnancy states stay mutually consistent.

Property theorems and non-vacuity examples only (helper lemmas: Lemmas/Pregnancy.lean).  Model: Model/Pregnancy.lean.
`Generated/PregnancyFacts.lean` is regenerated from /repo/starsim/demographics.py and people.py on every run;
`C19_source_flags` stops elaborating when a flag assignment the theorems rest on changes.

A history is any list of `StepIn` (fertility rates, uniform draws ≥ 0, post-partum durations, maternal-death flags,
sexes, neonatal-death picks, deaths requested by other modules — all arbitrary), with or without burn-in.
-/
import StarsimModel.Lemmas.Pregnancy
import StarsimModel.Model.Fertility
import StarsimModel.Generated.PregnancyFacts

namespace StarsimModel.C19
open StarsimModel.Pregnancy

/-- The flag assignments of the source transcribed by `Agent.setPrognoses`, `Agent.deliver`, `Agent.endPostpartum`,
    `finishStep`, `embryo`, `Agent.fertilityProb`, `Agent.ageBy`.  (Obligation on the regenerated file.) -/
theorem C19_source_flags :
    Gen.setPrognoses = [("dur_postpartum", "dur_postpartum"), ("fecund", "False"), ("pregnant", "True"),
      ("ti_delivery", "ti+dur_preg"), ("ti_postpartum", "self.ti_delivery[uids]+dur_postpartum"), ("ti_pregnant", "ti")] ∧
    Gen.deliveriesMask = "self.pregnant&(self.ti_delivery<=ti)" ∧
    Gen.deliveryFlags = [("fecund", "False"), ("postpartum", "True"), ("pregnant", "False")] ∧
    Gen.postpartumMask = "self.postpartum&(self.ti_postpartum<=ti)" ∧
    Gen.postpartumFlags = [("child_uid", "np.nan"), ("fecund", "True"), ("postpartum", "False")] ∧
    Gen.deliveriesBeforePostpartum = true ∧
    Gen.prenatalLossFlags = [("child_uid", "np.nan"), ("fecund", "True"), ("postpartum", "False"), ("pregnant", "False"),
      ("ti_delivery", "np.nan"), ("ti_postpartum", "np.nan")] ∧
    Gen.embryoAgeIsMinusGestation = true ∧ Gen.embryoBurninAge = true ∧ Gen.embryoParentLink = true ∧
    Gen.embryoChildLink = true ∧ Gen.prenatalAddCalls = 1 ∧
    Gen.prenatalAddArgs = "layer.add_pairs(conceive_uids,new_uids,dur=durs,start=start)" ∧
    Gen.fertilityZeroed = ["(~self.fecund).uids", "uids[invalid_age]"] ∧
    Gen.invalidAge = "(age<self.pars.min_age)|(age>self.pars.max_age)" ∧ Gen.eligibleAreFemaleUids = true ∧
    Gen.ageing = ["self.age[self.alive.uids]+=sim.t.dt_year"] := by decide

/-! ### Exclusivity -/

/-- **Exclusive.** Starting from a population in which every agent is in exactly one of fecund / pregnant /
    post-partum (e.g. a fresh one: everybody fecund), after any history — any fertility, draws, durations, deaths,
    with or without burn-in — every agent still is. -/
theorem C19_exclusive {p : Pars} (ins : List StepIn) (ti : Nat) {s s' : State} (hi : ∀ i ∈ ins, i.ok)
    (h : run p ti ins s = .ok s') (e : ∀ a ∈ s.agents, a.excl = true) : ∀ a ∈ s'.agents, a.excl = true :=
  run_excl ins ti hi h e

/-- a fresh population is exclusive -/
theorem C19_fresh_exclusive (l : List Agent) (h : ∀ a ∈ l, a.fecund = true ∧ a.pregnant = false ∧ a.postpartum = false) :
    ∀ a ∈ l, a.excl = true := by
  intro a ha; obtain ⟨h1, h2, h3⟩ := h a ha; simp [Agent.excl, h1, h2, h3]

/-! ### Whole-state invariant: links and maternal edges, for ALL histories -/

/-- a fresh population (everybody fecund, nobody pregnant or post-partum, no child links, no maternal edges) satisfies
    the invariant -/
theorem C19_fresh_inv (l : List Agent)
    (h : ∀ a ∈ l, a.fecund = true ∧ a.pregnant = false ∧ a.postpartum = false ∧ a.child = none) :
    Inv { agents := l, pre := [], post := [] } := by
  refine ⟨?_, ?_, ?_, ?_⟩
  · intro a ha; obtain ⟨h1, h2, h3, h4⟩ := h a ha; simp [Agent.ok, Agent.excl, h1, h2, h3, h4]
  · intro m a c hm hc
    rw [(h a (List.mem_of_getElem? hm)).2.2.2] at hc; cases hc
  · intro e he; cases he
  · intro e he; cases he

/-- **Links, all histories.** After any history — burn-in or not, any sequence of conceptions, deliveries, repeated
    pregnancies, deaths of mothers, of unborn or born children, of older siblings, removals, ageing — for every agent `m`:
    `child_uid[m] = c` implies `c` exists and `parent[c] = m`; `m` has a child link only while pregnant or post-partum;
    a pregnant `m` has one; and `m` is in exactly one of fecund / pregnant / post-partum. -/
theorem C19_links_all_histories {p : Pars} (ins : List StepIn) (ti : Nat) {s s' : State} (hi : ∀ i ∈ ins, i.ok)
    (h : run p ti ins s = .ok s') (i : Inv s) :
    (∀ (m : Nat) (a : Agent) (c : Nat), s'.agents[m]? = some a → a.child = some c →
        ∃ b : Agent, s'.agents[c]? = some b ∧ b.parent = some m) ∧
    (∀ a ∈ s'.agents, a.excl = true ∧ (a.child.isSome = true → a.pregnant = true ∨ a.postpartum = true) ∧
        (a.pregnant = true → a.child.isSome = true)) := by
  have i' := run_inv ins ti hi h i
  refine ⟨i'.links, fun a ha => ?_⟩
  have hok := i'.ok a ha
  simp only [Agent.ok, Bool.and_eq_true, Bool.or_eq_true, Bool.not_eq_eq_eq_not, Bool.not_true] at hok
  refine ⟨hok.1.1, fun hc => ?_, fun hp => ?_⟩
  · rcases hok.1.2 with (h1 | h1) | h1
    · rw [Option.isNone_iff_eq_none] at h1; rw [h1] at hc; cases hc
    · exact Or.inl h1
    · exact Or.inr h1
  · rcases hok.2 with h1 | h1
    · rw [hp] at h1; cases h1
    · exact h1

/-- **Maternal edges join mother and child, all histories.** Every prenatal and every postnatal edge `(p1, p2)` of every
    reachable state has `parent[p2] = p1`. -/
theorem C19_edges_join_all_histories {p : Pars} (ins : List StepIn) (ti : Nat) {s s' : State} (hi : ∀ i ∈ ins, i.ok)
    (h : run p ti ins s = .ok s') (i : Inv s) :
    ∀ e ∈ s'.pre ++ s'.post, ∃ b : Agent, s'.agents[e.p2]? = some b ∧ b.parent = some e.p1 := by
  have i' := run_inv ins ti hi h i
  intro e he
  rcases List.mem_append.mp he with he | he
  · exact i'.pre e he
  · exact i'.post e he

/-! ### Conception -/

/-- **Conception.** A conceiving agent is active, female, within the age range and fecund at that moment — her
    probability is otherwise 0 and draws are ≥ 0; being fecund she is (by exclusivity) neither pregnant nor post-partum. -/
theorem C19_conception_eligible {p : Pars} {d : Draws} {u : Nat} {a : Agent} (hd : 0 ≤ d.draw u)
    (h : a.conceives p d u = true) (he : a.excl = true) :
    a.active = true ∧ a.female = true ∧ p.minAge ≤ a.age ∧ a.age ≤ p.maxAge ∧ a.fecund = true ∧ a.pregnant = false ∧
    a.postpartum = false := by
  obtain ⟨h1, h2, h3, h4, h5⟩ := conceives_eligible hd h
  refine ⟨h1, h2, h4, h5, h3, ?_, ?_⟩ <;> (revert he; simp only [Agent.excl, h3]; cases a.pregnant <;> cases a.postpartum <;> simp)

/-- **Conception, with the fertility-rate computation modelled** (scalar or age-specific table: nearest-year row, age
    bin with Python index wrap-around, fecund-denominator rescaling, `rate_units·rel_fertility`, time factor): whatever the
    data, a woman whose draw is below the resulting probability is eligible.  The age mask and the infecund mask are
    applied to BOTH the scalar and the table form because they are applied after the rate is looked up. -/
theorem C19_conception_eligible_modelled {p : Pars} (fd : FertData) (units tf target : Rat) (wa ia : List Rat)
    {draw : Rat} {a : Agent} (hd : 0 ≤ draw)
    (h : (a.active && a.female && decide (draw < fertilityProbOf p fd units tf target wa ia a)) = true) (he : a.excl = true) :
    a.active = true ∧ a.female = true ∧ p.minAge ≤ a.age ∧ a.age ≤ p.maxAge ∧ a.fecund = true ∧ a.pregnant = false ∧
    a.postpartum = false :=
  C19_conception_eligible (p := p) (u := 0)
    (d := { rate := fun _ => fertilityRate fd target wa ia a.age * units * tf, draw := fun _ => draw }) hd h he

/-- outside the age limits the probability is 0 for a table exactly as for a scalar -/
theorem C19_age_mask_both_forms (p : Pars) (fd : FertData) (units tf target : Rat) (wa ia : List Rat) (a : Agent)
    (h : a.age < p.minAge ∨ p.maxAge < a.age) : fertilityProbOf p fd units tf target wa ia a = 0 :=
  by unfold fertilityProbOf Agent.fertilityProb; rcases h with h | h <;> simp [h]

/-- the probability of an ineligible woman is exactly 0 -/
theorem C19_probability_zeroed (p : Pars) (rate : Rat) (a : Agent)
    (h : a.fecund = false ∨ a.age < p.minAge ∨ p.maxAge < a.age) : a.fertilityProb p rate = 0 := by
  unfold Agent.fertilityProb
  rcases h with h | h | h <;> simp [h]

/-- consequently the "conception in a pregnant agent" error of `make_pregnancies` is unreachable from exclusive states -/
theorem C19_no_conception_in_pregnant {p : Pars} {ti : Rat} {d : Draws} {s : State} (hd : d.ok)
    (e : ∀ a ∈ s.agents, a.excl = true) : conceive p ti d s ≠ .error .conceptionInPregnant := by
  unfold conceive
  dsimp only
  split
  · rename_i hc
    simp only [List.any_eq_true] at hc
    obtain ⟨m, hm, hp⟩ := hc
    obtain ⟨a, ha, hcon⟩ := mem_uidsWhere.mp hm
    rw [getA_of_getElem? ha] at hp
    have := C19_conception_eligible (hd m) hcon (e a (List.mem_of_getElem? ha))
    rw [this.2.2.2.2.2.1] at hp; simp at hp
  · simp

/-! ### Links -/

/-- **Links (at conception).** `conceive` gives the `k`-th conceiving mother `m` the new uid `n + k` as child, and that
    agent has `m` — and only `m` — as parent; the mother becomes pregnant with `ti_delivery = ti + dur_pregnancy`. -/
theorem C19_links {p : Pars} {ti : Rat} {d : Draws} {s s' : State} (h : conceive p ti d s = .ok s')
    (m : Nat) (hm : m ∈ uidsWhere (fun u a => a.conceives p d u) s.agents) :
    ∃ c mom kid, s'.agents[m]? = some mom ∧ mom.child = some c ∧ s'.agents[c]? = some kid ∧ kid.parent = some m ∧
      s.agents.length ≤ c ∧ mom.pregnant = true ∧ mom.tiDelivery = some (ti + p.durPreg) ∧
      kid.age = (if ti < 0 then -p.durPregYear + (-ti) * p.dtYear else -p.durPregYear) := by
  unfold conceive at h
  dsimp only at h
  split at h
  · simp at h
  · simp only [Except.ok.injEq] at h; subst h
    obtain ⟨a, ha, _⟩ := mem_uidsWhere.mp hm
    have hlt : m < s.agents.length := (List.getElem?_eq_some_iff.mp ha).1
    have hidx := List.idxOf_lt_length_of_mem hm
    refine ⟨s.agents.length + List.idxOf m (uidsWhere (fun u a => a.conceives p d u) s.agents),
      { a.setPrognoses p ti d m with child := some (s.agents.length + List.idxOf m (uidsWhere (fun u a => a.conceives p d u) s.agents)) },
      embryo p ti d m, ?_, ?_, ?_, ?_, by omega, ?_, ?_, ?_⟩
    · rw [List.getElem?_append_left (by simpa [length_mapIdx] using hlt), getElem?_mapIdx, ha]
      simp only [Option.map_some, Nat.zero_add, List.contains_eq_mem, hm, decide_true, ↓reduceIte]
    · rfl
    · rw [List.getElem?_append_right (by simp [length_mapIdx]), length_mapIdx, Nat.add_sub_cancel_left,
        List.getElem?_map, List.getElem?_eq_getElem hidx]
      simp [List.getElem_idxOf]
    · simp [embryo]
    · rfl
    · rfl
    · simp [embryo]

/-- no transition other than `conceive` writes a parent link (statement for the per-agent transitions) -/
theorem C19_parent_never_rewritten (ti st dt : Rat) (a : Agent) :
    (a.deliver ti).parent = a.parent ∧ (a.endPostpartum ti).parent = a.parent ∧ (a.maternalDeath ti st).parent = a.parent ∧
    (a.ageBy dt).parent = a.parent := by
  refine ⟨?_, ?_, ?_, ?_⟩
  · unfold Agent.deliver; split <;> rfl
  · unfold Agent.endPostpartum; split <;> rfl
  · unfold Agent.maternalDeath; split <;> rfl
  · unfold Agent.ageBy; split <;> rfl

/-- the child link is kept through delivery and cleared exactly when post-partum ends -/
theorem C19_child_link_lifetime (ti : Rat) (a : Agent) :
    (a.deliver ti).child = a.child ∧
    ((a.endPostpartum ti).child = a.child ∨ ((a.endPostpartum ti).child = none ∧ a.postpartum = true ∧ (a.endPostpartum ti).postpartum = false)) := by
  constructor
  · unfold Agent.deliver; split <;> rfl
  · unfold Agent.endPostpartum; split
    · rename_i hc; simp only [Bool.and_eq_true] at hc; exact Or.inr ⟨rfl, hc.1.2, rfl⟩
    · exact Or.inl rfl

/-! ### Delivery time -/

/-- delivery happens at step `t` iff the woman is (active and) pregnant and `ti_delivery ≤ t` -/
theorem C19_delivers_iff (t : Rat) (a : Agent) (d : Rat) (hd : a.tiDelivery = some d) :
    a.delivers t = true ↔ a.active = true ∧ a.pregnant = true ∧ d ≤ t := by
  simp [Agent.delivers, leO, hd, and_assoc]

/-- **Delivery time.** For a conception at (integer) step `tc` and gestation `g` steps, the delivery condition
    `tc + g ≤ t` holds at an integer step `t` iff `tc + ⌈g⌉ ≤ t`: delivery is at the first step `≥ ti_conception +
    gestation`, i.e. gestation rounded up to whole steps. -/
theorem C19_delivery_time (g : Rat) (tc t : Int) : ((tc : Rat) + g ≤ (t : Rat)) ↔ (tc + g.ceil ≤ t) := ceil_shift g tc t

/-- at delivery the flags become (not fecund, not pregnant, post-partum) -/
theorem C19_delivery_flags (t : Rat) (a : Agent) (h : a.delivers t = true) :
    (a.deliver t).pregnant = false ∧ (a.deliver t).postpartum = true ∧ (a.deliver t).fecund = false := by
  simp [Agent.deliver, h]

/-! ### Ages -/

/-- `k` ageing steps of a living active agent -/
def ageN (dt : Rat) : Nat → Agent → Agent
  | 0, a => a
  | k + 1, a => (ageN dt k a).ageBy dt

/-- **Ageing.** One step adds `dt_year` to the age of every living active agent and leaves the others alone … -/
theorem C19_ageing (p : Pars) (s : State) (u : Nat) (a : Agent) (h : s.agents[u]? = some a) :
    ∃ b, (ageing p s).agents[u]? = some b ∧ b.age = (if a.active && a.alive then a.age + p.dtYear else a.age) ∧
      b.alive = a.alive ∧ b.active = a.active := by
  refine ⟨a.ageBy p.dtYear, by simp [ageing, h], ?_, ?_, ?_⟩ <;> (unfold Agent.ageBy; split <;> simp_all)

/-- … so after `k` steps alive its age has grown by `k · dt_year`. -/
theorem C19_ageing_k (dt : Rat) (a : Agent) (h : a.active = true ∧ a.alive = true) : ∀ k : Nat,
    (ageN dt k a).age = a.age + k * dt ∧ (ageN dt k a).active = true ∧ (ageN dt k a).alive = true
  | 0 => by simp [ageN, h]; grind
  | k + 1 => by
      obtain ⟨h1, h2, h3⟩ := C19_ageing_k dt a h k
      have hc : ((k + 1 : Nat) : Rat) = (k : Rat) + 1 := by push_cast; rfl
      simp only [ageN, Agent.ageBy, h2, h3, Bool.and_self, ↓reduceIte, h1, hc, and_self, and_true]
      grind

/-- **Newborn age.** An agent conceived with age `−g·dt_year` (gestation `g` steps) and aged once per step is, at the
    delivery step `⌈g⌉` steps later, of an age in `[0, dt_year)`: within one step of 0. -/
theorem C19_newborn_age (g dtY : Rat) (hdt : 0 < dtY) :
    0 ≤ -(g * dtY) + (g.ceil : Rat) * dtY ∧ -(g * dtY) + (g.ceil : Rat) * dtY < dtY := by
  have h1 := le_ceil g
  have h2 := ceil_lt_add_one g
  have e : -(g * dtY) + (g.ceil : Rat) * dtY = ((g.ceil : Rat) - g) * dtY := by grind
  rw [e]
  constructor
  · exact Rat.mul_nonneg (by grind) (Rat.le_of_lt hdt)
  · have : ((g.ceil : Rat) - g) * dtY < 1 * dtY := (Rat.mul_lt_mul_right hdt).mpr (by grind)
    simpa using this

/-- burn-in: an embryo conceived at `ti < 0` gets the age it would have reached by `ti = 0` -/
theorem C19_burnin_age (p : Pars) (d : Draws) (m : Nat) (k : Nat) (hk : 0 < k) :
    (embryo p (-(k : Rat)) d m).age = -p.durPregYear + k * p.dtYear := by
  have : (-(k : Rat)) < 0 := by
    have : (0 : Rat) < (k : Rat) := by exact_mod_cast hk
    grind
  simp [embryo, this]

/-! ### Maternal-network edges -/

/-- **Prenatal edges.** A pregnancy conceived at `tc` creates one prenatal edge with `end = tc + dur_pregnancy =
    ti_delivery`; after `update_states` and `MaternalNet.step` at step `t` the edge has positive beta iff the woman is
    still pregnant. -/
theorem C19_prenatal_edges (t d : Rat) (a : Agent) (e : Edge) (ha : a.active = true) (hp : a.pregnant = true)
    (hd : a.tiDelivery = some d) (he : e.stop = d) (hb : e.beta = 1) :
    (0 < (if e.stop ≤ t then { e with beta := 0 } else e).beta) ↔ (a.deliver t).pregnant = true := by
  by_cases h : d ≤ t
  · simp [Agent.deliver, Agent.delivers, leO, ha, hp, hd, he, h]
  · simp [Agent.deliver, Agent.delivers, leO, ha, hp, hd, he, h, hb]; decide

/-- the prenatal edges `conceive` adds: exactly one per conceiving mother, to her new child, ending at her delivery time -/
theorem C19_prenatal_edges_added {p : Pars} {ti : Rat} {d : Draws} {s s' : State} (hp : p.prenatal = true)
    (h : conceive p ti d s = .ok s') :
    s'.pre = s.pre ++ mapIdx (fun k m => (⟨m, s.agents.length + k, 1, p.durPreg, ti, ti + p.durPreg⟩ : Edge))
      (uidsWhere (fun u a => a.conceives p d u) s.agents) 0 := by
  unfold conceive at h
  dsimp only at h
  split at h
  · simp at h
  · simp only [Except.ok.injEq] at h; subst h; simp [hp]

/-- **Postnatal edges.** A postnatal edge created at delivery step `td` with duration `dpp` has positive beta (after
    `MaternalNet.step`) exactly at the integer steps `td ≤ t < td + ⌈dpp⌉`: fewer than `dpp + 1` steps. -/
theorem C19_postnatal_edges (dpp : Rat) (td t : Int) :
    (¬ ((td : Rat) + dpp ≤ (t : Rat)) ↔ t < td + dpp.ceil) ∧ (dpp.ceil : Rat) < dpp + 1 := by
  refine ⟨?_, ceil_lt_add_one dpp⟩
  rw [ceil_shift]; omega

/-- the edges `update_states` moves to the postnatal layer are the ending prenatal edges, re-dated from `ti` with the
    mother's post-partum duration; it refuses (error) unless their mothers are exactly the delivering women -/
theorem C19_postnatal_edges_added {p : Pars} {ti st : Rat} {s s' : State} (hpn : p.postnatal = true)
    (hdel : uidsWhere (fun _ a => a.delivers ti) s.agents ≠ []) (h : updateStates p ti st s = .ok s') :
    let ending := s.pre.filter (fun e => decide (e.stop ≤ ti))
    (∀ e ∈ ending, e.p1 ∈ uidsWhere (fun _ a => a.delivers ti) s.agents) ∧
    (∀ m ∈ uidsWhere (fun _ a => a.delivers ti) s.agents, m ∈ ending.map (·.p1)) ∧
    s'.post.length = s.post.length + ending.length ∧ (∀ e ∈ s'.pre, ti < e.stop) := by
  unfold updateStates at h
  dsimp only at h
  have hne : (uidsWhere (fun _ a => a.delivers ti) s.agents).isEmpty = false := by
    cases hx : uidsWhere (fun _ a => a.delivers ti) s.agents with
    | nil => exact absurd hx hdel
    | cons _ _ => rfl
  simp only [hpn, hne, Bool.not_false, Bool.and_self, ↓reduceIte] at h
  split at h
  · simp at h
  · rename_i pre' post' hmoved
    simp only [Except.ok.injEq] at h; subst h
    split at hmoved
    · rename_i hc
      simp only [Except.ok.injEq, Prod.mk.injEq] at hmoved
      obtain ⟨rfl, rfl⟩ := hmoved
      simp only [Bool.and_eq_true, List.all_eq_true, List.contains_eq_mem, decide_eq_true_eq, List.mem_map] at hc
      refine ⟨fun e he => hc.1 e.p1 ⟨e, he, rfl⟩, fun m hm => by simpa using hc.2 m hm, by simp, ?_⟩
      intro e he
      simp only [List.mem_filter, Bool.and_eq_true, decide_eq_true_eq] at he
      exact he.2.1.1
    · simp at hmoved

/-! ### Parameters changed on an initialised sim -/

/-- **Re-parameterised histories.** Whatever parameters each step is run with — gestation, age limits, layers changed
    between steps through the parameter API of an initialised sim (`runP`: one `Pars` per step) — after any history every
    agent is in exactly one of fecund / pregnant / post-partum, `child_uid[m] = c` implies `parent[c] = m`, and every
    maternal edge joins a mother and her child. -/
theorem C19_reparam_all_histories (ins : List (Pars × StepIn)) (ti : Nat) {s s' : State} (hi : ∀ i ∈ ins, i.2.ok)
    (h : runP ti ins s = .ok s') (i : Inv s) :
    (∀ a ∈ s'.agents, a.excl = true) ∧
    (∀ (m : Nat) (a : Agent) (c : Nat), s'.agents[m]? = some a → a.child = some c →
        ∃ b : Agent, s'.agents[c]? = some b ∧ b.parent = some m) ∧
    (∀ e ∈ s'.pre ++ s'.post, ∃ b : Agent, s'.agents[e.p2]? = some b ∧ b.parent = some e.p1) := by
  have i' := runP_inv ins ti hi h i
  refine ⟨fun a ha => ok_excl (i'.ok a ha), i'.links, fun e he => ?_⟩
  rcases List.mem_append.mp he with he | he
  · exact i'.pre e he
  · exact i'.post e he

/-- a history with constant parameters is the special case of `runP` -/
theorem C19_reparam_const (p : Pars) (ins : List StepIn) (ti : Nat) (s : State) :
    runP ti (ins.map (fun i => (p, i))) s = run p ti ins s := runP_const p ins ti s

/-- **One gestation parameter.** The code reads the gestation through two interfaces: in steps (`ti_delivery`, the prenatal
    edge) and in years (the age of the conceived agent).  When the two agree (`Pars.coherent`, checked on every observed
    `do_step`), a pregnancy conceived at step `ti ≥ 0` has `ti_delivery = ti + g`, and the conceived agent, aged once per
    step, is `⌈g⌉` steps later — the delivery step by `C19_delivery_time` — of an age in `[0, dt_year)`. -/
theorem C19_gestation_coherent (p : Pars) (hc : p.coherent) (hdt : 0 < p.dtYear) (ti : Nat) (d : Draws) (m u : Nat) (a : Agent) :
    (a.setPrognoses p (ti : Rat) d u).tiDelivery = some ((ti : Rat) + p.durPreg) ∧
    0 ≤ (embryo p (ti : Rat) d m).age + (p.durPreg.ceil : Rat) * p.dtYear ∧
    (embryo p (ti : Rat) d m).age + (p.durPreg.ceil : Rat) * p.dtYear < p.dtYear := by
  have hti : ¬ ((ti : Nat) : Rat) < 0 := by
    have : (0 : Rat) ≤ (ti : Rat) := by exact_mod_cast Nat.zero_le ti
    grind
  have he : (embryo p (ti : Rat) d m).age = -(p.durPreg * p.dtYear) := by
    unfold Pars.coherent at hc
    simp only [embryo, hti, ↓reduceIte]; rw [hc]
  refine ⟨rfl, ?_, ?_⟩
  · rw [he]; exact (C19_newborn_age p.durPreg p.dtYear hdt).1
  · rw [he]; exact (C19_newborn_age p.durPreg p.dtYear hdt).2

/-! ### Non-vacuity -/

def demoPars : Pars := { durPreg := 5 / 2, durPregYear := 5 / 8, dtYear := 1 / 4, minAge := 15, maxAge := 50,
                         prenatal := true, postnatal := true, burnin := false }

def woman (age : Rat) : Agent := { female := true, age := age }
def man (age : Rat) : Agent := { age := age }

def demoStart : State := { agents := [woman 30, man 40, woman 10], pre := [], post := [] }

/-- everybody has rate 1; only agent 0's draw is below it at the first step -/
def conceiveIn : StepIn := { draws := { rate := fun _ => 1, draw := fun u => if u = 0 then 0 else 1, durPP := fun _ => 3 / 2 } }

/-- gestation 5/2 steps: conception at step 0, still pregnant with a live prenatal edge after step 2 … -/
example : summarize (run demoPars 0 [conceiveIn, {}, {}] demoStart) =
    some { rows := [⟨false, true, false, some 3, none, 123 / 4⟩, ⟨true, false, false, none, none, 163 / 4⟩,
                    ⟨true, false, false, none, none, 43 / 4⟩, ⟨true, false, false, none, some 0, 1 / 8⟩],
           pre := [(0, 3, 1, 5 / 2)], post := [], invariants := true } := by decide +kernel

/-- … delivered at step 3 (= ⌈5/2⌉) when the child is 1/8 year old (∈ [0, 1/4)); the edge moves to the postnatal layer
    until 3 + 3/2 -/
example : summarize (run demoPars 0 [conceiveIn, {}, {}, {}] demoStart) =
    some { rows := [⟨false, false, true, some 3, none, 31⟩, ⟨true, false, false, none, none, 41⟩,
                    ⟨true, false, false, none, none, 11⟩, ⟨true, false, false, none, some 0, 3 / 8⟩],
           pre := [], post := [(0, 3, 1, 9 / 2)], invariants := true } := by decide +kernel

/-- the girl of 10 and the man never conceive although their rate is 1 and their draw 0 -/
example : (summarize (run demoPars 0 [{ draws := { rate := fun _ => 1, draw := fun _ => 0 } }] demoStart)).map
      (fun s => s.rows.map (·.pregnant)) = some [true, false, false, false] := by decide +kernel

/-- an age-specific table with bins 0 / 15 / 25 / 45, two years: a woman of 30 in the year nearest 2004 gets the 25-44 rate
    of the 2000 row (300 per 1000 → 0.3 at a yearly step); rescaled by 2/1 when one of the two women of that bin is
    infecund; a girl of 12 (below min_age 15) gets 0 although her bin has a positive rate; age −0.5 wraps to the last bin -/
def demoTable : FertData := .table { bins := [0, 15, 25, 45], years := [2000, 2010], rows := [[50, 100, 300, 0], [0, 200, 400, 0]] }
example : fertilityProbOf demoPars demoTable (1 / 1000) 1 2004 [30, 28, 12] [] (woman 30) = 3 / 10 := by decide +kernel
example : fertilityProbOf demoPars demoTable (1 / 1000) 1 2004 [30, 28, 12] [28] (woman 30) = 6 / 10 := by decide +kernel
example : fertilityProbOf demoPars demoTable (1 / 1000) 1 2004 [30, 28, 12] [] (woman 12) = 0 := by decide +kernel
example : fertilityRate demoTable 2006 [30] [] (-1 / 2) = 0 ∧ fertilityRate demoTable 2006 [30] [] 16 = 200 := by decide +kernel

/-- burn-in: with gestation 5/2 the module first runs `do_step` at ti = −2 and −1 -/
example : burnSteps demoPars = [-2, -1] := by decide +kernel

/-- the hypotheses of `C19_exclusive` are met by the demo history -/
example : (∀ i ∈ [conceiveIn, ({} : StepIn)], i.ok) ∧ (∀ a ∈ demoStart.agents, a.excl = true) := by
  refine ⟨?_, by decide⟩
  intro i hi
  simp only [List.mem_cons, List.not_mem_nil, or_false] at hi
  rcases hi with rfl | rfl
  · refine ⟨fun u => ?_, fun d hd => by simp [conceiveIn] at hd⟩
    show (0 : Rat) ≤ if u = 0 then 0 else 1
    split <;> decide
  · exact ⟨Draws.default_ok, fun d hd => by simp at hd⟩

/-- the hypotheses of `C19_gestation_coherent` are met by the demo parameters (5/2 steps of 1/4 year = 5/8 year) -/
example : demoPars.coherent ∧ 0 < demoPars.dtYear := by decide +kernel

/-- … and are needed: a module whose step value of the gestation is stale (9 monthly steps) while its value in years was
    updated to 1/2 conceives agents at age −1/2 and delivers them 9 steps later aged +1/4, not within one step of 0 -/
def staleGestation : Pars := { durPreg := 9, durPregYear := 1 / 2, dtYear := 1 / 12, minAge := 15, maxAge := 50,
                               prenatal := true, postnatal := true, burnin := false }
example : ¬ staleGestation.coherent ∧
    ¬ ((embryo staleGestation 0 {} 0).age + (staleGestation.durPreg.ceil : Rat) * staleGestation.dtYear < staleGestation.dtYear) := by
  decide +kernel

/-- a re-parameterised history: nothing happens at step 0 under gestation 5/2; the gestation is then updated to 1 step
    (1/4 year) and agent 0 conceives at step 1: her child enters at −1/4 and is delivered at step 2 -/
def shortPars : Pars := { demoPars with durPreg := 1, durPregYear := 1 / 4 }
example : (summarize (runP 0 [(demoPars, {}), (shortPars, conceiveIn), (shortPars, {})] demoStart)).map
      (fun s => (s.rows.map (fun r => (r.pregnant, r.postpartum, r.age)), s.invariants)) =
    some ([(false, true, 123 / 4), (false, false, 163 / 4), (false, false, 43 / 4), (false, false, 1 / 4)], true) := by decide +kernel

end StarsimModel.C19
