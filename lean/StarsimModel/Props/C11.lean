/-
C11 — Agent arrays behave as a uid-indexed map restricted to active agents.

Property theorems only (helper lemmas: Lemmas/Arr.lean).  Model: Model/Arr.lean.  The reallocation rule of
`Arr.grow`, which views go through the active index, and how `_convert_key` treats an `int` come from
Generated/ArrConsts.lean, regenerated from /repo/starsim/arrays.py on every run.
-/
import StarsimModel.Lemmas.Arr

namespace StarsimModel.C11
open StarsimModel.Arr

/-! ### Obligations on the regenerated facts -/

/-- `Arr.values`, `true()`, `false()`, `__len__`, `BoolArr.uids`, `IndexArr.uids` all read through `self.auids`. -/
theorem C11_views_go_through_active :
    Gen.valuesViaActive = true ∧ Gen.trueViaActive = true ∧ Gen.falseViaActive = true ∧ Gen.lenViaActive = true ∧
    Gen.boolUidsViaActive = true ∧ Gen.indexUidsViaActive = true := by decide

/-- The reallocation rule always makes room for the request (otherwise `len_used` would exceed `len_tot`). -/
theorem C11_grow_amount_sufficient (nNew lenTot : Nat) : nNew ≤ Gen.growAmount nNew lenTot :=
  growAmount_ge nNew lenTot

/-- … and reallocation happens exactly when the request does not fit. -/
theorem C11_realloc_iff (origLen nNew lenTot : Nat) : Gen.needsRealloc origLen nNew lenTot = true ↔ lenTot < origLen + nNew := by
  simp [Gen.needsRealloc]

/-- The spare tail is nan-filled exactly when there is a spare tail. -/
theorem C11_nan_tail_iff (nGrow nNew : Nat) : Gen.nanFillTail nGrow nNew = true ↔ nNew < nGrow := by
  simp [Gen.nanFillTail]

/-- The dispatch of `_convert_key` is the one `convertKey` models: identifiers pass through, Boolean/index arrays give
    their uids, slices go through the active index, empty keys select nobody, everything else raises; an `int` is either
    passed through unchanged (today, variant `asis`) or mapped through the active index (a repaired tree, variant `spec`). -/
theorem C11_convert_key_chain :
    (Gen.convertKeyChain = [("int+uids", "identity"), ("boolarr+indexarr", "key.uids"), ("slice", "auids[key]"),
        ("empty", "empty"), ("ndarray-reticulate", "astype"), ("else", "raise")] ∧ Gen.intKeyViaActive = false) ∨
    (Gen.convertKeyChain = [("uids", "identity"), ("int", "auids[key]"), ("boolarr+indexarr", "key.uids"), ("slice", "auids[key]"),
        ("empty", "empty"), ("ndarray-reticulate", "astype"), ("else", "raise")] ∧ Gen.intKeyViaActive = true) ∨
    (Gen.convertKeyChain = [("uids", "identity"), ("boolarr+indexarr", "key.uids"), ("int+slice", "auids[key]"),
        ("empty", "empty"), ("ndarray-reticulate", "astype"), ("else", "raise")] ∧ Gen.intKeyViaActive = true) := by decide

/-! ### Reading and writing by identifier -/

/-- The active view is the reference map listed over the active identifiers. -/
theorem C11_values_abs (au : List Nat) (a : Arr) : (values au a).map some = au.map (abs au a) := by
  simp only [values, gather, List.map_map]
  apply List.map_congr_left
  intro u hu
  simp [abs, hu]

/-- **get by uids**: identifier indexing returns, for each requested identifier in storage, its stored value — for an
    active identifier that is the reference map's value — wherever the agent sits and whoever else was removed. -/
theorem C11_get_uids (v : Variant) (au : List Nat) (a : Arr) (us : List Nat) (h : inRange a us = true) :
    getItem v au a (.uids us) = .ok (.vals (us.map a.cell)) ∧
    ∀ u ∈ us, u ∈ au → abs au a u = some (a.cell u) := by
  constructor
  · cases v <;> simp [getItem, convertKey, h, gather]
  · intro u _ hu; simp [abs, hu]

/-- an identifier outside storage raises `IndexError` -/
theorem C11_get_uids_out_of_storage (v : Variant) (au : List Nat) (a : Arr) (us : List Nat) (h : inRange a us = false) :
    getItem v au a (.uids us) = .error .index := by
  cases v <;> simp [getItem, convertKey, h]

/-- **set by uids**: after `arr[uids] = value` every identifier not named keeps its value, every named one holds the
    value assigned to it *cast to the array's dtype* (the last one, if it is named twice); the bookkeeping is untouched. -/
theorem C11_set_uids (v : Variant) (au : List Nat) (a : Arr) (us : List Nat) (rhs0 rhs : Rhs)
    (hc : castRhs a.kind rhs0 = some rhs) (hr : inRange a us = true) (hok : rhsOk us rhs = true) :
    ∃ a', setItem v au a (.uids us) rhs0 = .ok a' ∧ a'.lenUsed = a.lenUsed ∧ a'.lenTot = a.lenTot ∧
      a'.raw.length = a.raw.length ∧ a'.nan = a.nan ∧ a'.default = a.default ∧ a'.kind = a.kind ∧
      (∀ x, a'.cell x = updMany a.cell us (rhsVals us.length rhs) x) ∧
      (∀ x, x ∉ us → abs au a' x = abs au a x) := by
  have hin : ∀ u ∈ us, u < a.raw.length := by simpa [inRange] using hr
  refine ⟨{ a with raw := assignRaw a.raw us rhs }, ?_, rfl, rfl, by simp, rfl, rfl, rfl, ?_, ?_⟩
  · cases v <;> simp [setItem, convertKey, hc, hr, hok]
  · intro x; simp only [Arr.cell]; exact assignRaw_eq_updMany a.raw us rhs hok hin x
  · intro x hx
    simp only [abs, Arr.cell]
    rw [assignRaw_getD_not_mem a.raw us rhs x hx]

/-- distinct identifiers, one value each: identifier `us[i]` afterwards holds `vs[i]` -/
theorem C11_set_uids_list (a : Arr) (us : List Nat) (vs : List Val) (hnd : us.Nodup) (hl : vs.length = us.length)
    (hr : inRange a us = true) (i : Nat) (hi : i < us.length) :
    (assignRaw a.raw us (.list vs)).getD us[i] .undef = vs[i]'(by omega) := by
  have hin : ∀ u ∈ us, u < a.raw.length := by simpa [inRange] using hr
  simp only [assignRaw, hl, beq_self_eq_true, ↓reduceIte]
  exact scatter_getD_nodup us vs a.raw hnd hl.symm i hi (by omega) (hin _ (List.getElem_mem hi))

/-- a value list of the wrong length is refused, and so is a value the dtype cannot hold (NaN into an integer array) -/
theorem C11_set_wrong_length (v : Variant) (au : List Nat) (a : Arr) (us : List Nat) (vs : List Val)
    (h1 : vs.length ≠ us.length) (h2 : vs.length ≠ 1) :
    setItem v au a (.uids us) (.list vs) = .error .value := by
  have key : ∀ rhs, castRhs a.kind (.list vs) = some rhs → rhsOk us rhs = false := by
    intro rhs hc
    simp only [castRhs, Option.map_eq_some_iff] at hc
    obtain ⟨vs', hm, rfl⟩ := hc
    have hl : vs'.length = vs.length := castList_length a.kind vs vs' hm
    simp [rhsOk, hl, h1, h2]
  cases hc : castRhs a.kind (.list vs) with
  | none => cases v <;> simp [setItem, convertKey, hc]
  | some rhs => cases v <;> simp [setItem, convertKey, hc, key rhs hc]

/-! ### Slices and Boolean keys see only active agents -/

/-- **slice**: `arr[s:e:t]` returns stored values of *active* identifiers only, and `arr[:]` is exactly the active view. -/
theorem C11_slice_active (v : Variant) (au : List Nat) (a : Arr) (s e st : Option Int) (hin : inRange a au = true) :
    (st.getD 1 ≠ 0 → ∃ us : List Nat, (∀ u ∈ us, u ∈ au) ∧ getItem v au a (.slice s e st) = .ok (.vals (us.map a.cell))) ∧
    (st.getD 1 = 0 → getItem v au a (.slice s e st) = .error .value) ∧
    getItem v au a (.slice none none none) = .ok (.vals (values au a)) := by
  have hall : ∀ u ∈ au, u < a.raw.length := by simpa [inRange] using hin
  refine ⟨?_, ?_, ?_⟩
  · intro hst
    cases hs : sliceUids au s e st with
    | none =>
        exfalso
        simp [sliceUids, sliceIndices, hst] at hs
        split at hs <;> simp at hs
    | some us =>
        have hmem := sliceUids_mem au s e st us hs
        have hr : inRange a us = true := by
          simp only [inRange, List.all_eq_true, decide_eq_true_eq]
          intro u hu; exact hall u (hmem u hu)
        exact ⟨us, hmem, by cases v <;> simp [getItem, convertKey, hs, hr, gather]⟩
  · intro hst
    have hs : sliceUids au s e st = none := by simp [sliceUids, sliceIndices, hst]
    cases v <;> simp [getItem, convertKey, hs]
  · cases v <;> simp [getItem, convertKey, sliceUids_full, hin, values]

/-- **Boolean key**: `arr[boolarr]` reads exactly the active identifiers whose flag is truthy, in active order. -/
theorem C11_bool_key (v : Variant) (au : List Nat) (a k : Arr) (hin : inRange a au = true) (hk : isBoolKind k = true) :
    getItem v au a (.boolArr k) = .ok (.vals ((trueUids au k).map a.cell)) ∧ (trueUids au k).Sublist au := by
  have hall : ∀ u ∈ au, u < a.raw.length := by simpa [inRange] using hin
  have hr : inRange a (trueUids au k) = true := by
    simp only [inRange, List.all_eq_true, decide_eq_true_eq]
    intro u hu; exact hall u (List.mem_filter.mp hu).1
  exact ⟨by cases v <;> simp [getItem, convertKey, hk, hr, gather], List.filter_sublist⟩

/-- **ambiguous keys** (non-empty lists / plain integer arrays / floats / strings) are rejected for reading and writing,
    while an empty key selects nobody. -/
theorem C11_ambiguous_key_rejected (v : Variant) (au : List Nat) (a : Arr) (rhs : Rhs) :
    getItem v au a .unsupported = .error .ambiguous ∧ setItem v au a .unsupported rhs = .error .ambiguous ∧
    getItem v au a .empty = .ok (.vals []) := by
  cases v <;> simp [getItem, setItem, convertKey, inRange, gather]

/-! ### true / false partition the active set -/

/-- **Partition.** `true()` and `false()` are order-preserving sub-lists of the active index, disjoint, and together
    contain every active identifier exactly once — whatever is stored at inactive positions. -/
theorem C11_true_false_partition (au : List Nat) (a : Arr) :
    (trueUids au a).Sublist au ∧ (falseUids au a).Sublist au ∧
    (trueUids au a ++ falseUids au a).Perm au ∧
    (∀ u, u ∈ au ↔ (u ∈ trueUids au a ∨ u ∈ falseUids au a)) ∧
    (∀ u, ¬ (u ∈ trueUids au a ∧ u ∈ falseUids au a)) ∧
    (trueUids au a).length + (falseUids au a).length = au.length := by
  refine ⟨List.filter_sublist, List.filter_sublist, List.filter_append_perm _ au, ?_, ?_, ?_⟩
  · intro u
    simp only [trueUids, falseUids, List.mem_filter]
    by_cases h : (a.cell u).truthy <;> simp [h]
  · intro u
    simp only [trueUids, falseUids, List.mem_filter]
    by_cases h : (a.cell u).truthy <;> simp [h]
  · have := (List.filter_append_perm (fun u => (a.cell u).truthy) au).length_eq
    simpa [trueUids, falseUids] using this

/-- `true()` never reports an inactive identifier, even when its storage cell is truthy. -/
theorem C11_true_only_active (au : List Nat) (a : Arr) (u : Nat) (h : u ∉ au) : u ∉ trueUids au a ∧ u ∉ falseUids au a := by
  simp [trueUids, falseUids, List.mem_filter, h]

/-! ### Reductions -/

/-- **Reductions see only active agents**: two arrays that agree on the active identifiers have the same length,
    count, sum, mean, min, max, any, all — their inactive cells and spare capacity are irrelevant. -/
theorem C11_reductions_active (au : List Nat) (a b : Arr) (h : ∀ u ∈ au, a.cell u = b.cell u) :
    values au a = values au b ∧ len au a = len au b ∧ count au a = count au b ∧ sum au a = sum au b ∧
    mean au a = mean au b ∧ minV au a = minV au b ∧ maxV au a = maxV au b ∧ anyV au a = anyV au b ∧ allV au a = allV au b := by
  have hv : values au a = values au b := by
    simp only [values, gather]; exact List.map_congr_left h
  simp [len, count, sum, mean, minV, maxV, anyV, allV, hv]

/-- `len(arr)` is the number of active agents; `count` the number of truthy active cells = `len(true())`. -/
theorem C11_len_count (au : List Nat) (a : Arr) : len au a = au.length ∧ count au a = (trueUids au a).length := by
  refine ⟨rfl, ?_⟩
  simp only [count, values, gather, trueUids, List.filter_map, List.length_map]
  rfl

/-! ### Comparisons and logic commute with the abstraction -/

/-- writing the active view back: the cell of the `i`-th active identifier holds the `i`-th value -/
theorem asnew_cell (au : List Nat) (a : Arr) (vals : List Val) (kind : Kind) (hnd : au.Nodup) (hin : inRange a au = true)
    (hl : vals.length = au.length) (i : Nat) (hi : i < au.length) :
    (asnew au a vals kind).cell au[i] = vals[i]'(by omega) := by
  have hall : ∀ u ∈ au, u < a.raw.length := by simpa [inRange] using hin
  simp only [asnew, Arr.cell]
  exact scatter_getD_nodup au vals _ hnd hl.symm i hi (by omega) (by simpa using hall _ (List.getElem_mem hi))

/-- **Compare.** For every active identifier, the result of `arr <op> x` holds `cell <op> x`. -/
theorem C11_compare (au : List Nat) (a : Arr) (op : Cmp) (x : Val) (hnd : au.Nodup) (hin : inRange a au = true)
    (i : Nat) (hi : i < au.length) :
    (cmpScalar au a op x).cell au[i] = cmpVal op (a.cell au[i]) x ∧ (cmpScalar au a op x).kind = .bool := by
  refine ⟨?_, rfl⟩
  rw [cmpScalar, asnew_cell au a _ .bool hnd hin (by simp [values, gather]) i hi]
  simp [values, gather]

theorem C11_compare_arr (au : List Nat) (a b : Arr) (op : Cmp) (hnd : au.Nodup) (hin : inRange a au = true)
    (i : Nat) (hi : i < au.length) :
    (cmpArr au a b op).cell au[i] = cmpVal op (a.cell au[i]) (b.cell au[i]) := by
  rw [cmpArr, asnew_cell au a _ .bool hnd hin (by simp [values, gather]) i hi]
  simp [values, gather]

/-- the comparison result's true/false sets are exactly the active identifiers satisfying / failing the comparison -/
theorem C11_compare_true (au : List Nat) (a : Arr) (op : Cmp) (x : Val) (hnd : au.Nodup) (hin : inRange a au = true) :
    trueUids au (cmpScalar au a op x) = au.filter (fun u => (cmpVal op (a.cell u) x).truthy) := by
  simp only [trueUids]
  apply List.filter_congr
  intro u hu
  obtain ⟨i, hi, rfl⟩ := List.getElem_of_mem hu
  rw [(C11_compare au a op x hnd hin i hi).1]

/-- **Logic.** On Boolean arrays `&`, `|`, `^`, `~` act cell-wise on the active identifiers; on any other array they raise. -/
theorem C11_logic (au : List Nat) (a b : Arr) (op : Logic) (hnd : au.Nodup) (hin : inRange a au = true) :
    (isBoolKind a = true → ∃ r, logicArr au a b op = .ok r ∧ ∀ (i : Nat) (hi : i < au.length),
        r.cell au[i] = logicVal op (a.cell au[i]) (b.cell au[i])) ∧
    (isBoolKind a = true → ∃ r, invert au a = .ok r ∧ ∀ (i : Nat) (hi : i < au.length),
        r.cell au[i] = notVal (a.cell au[i])) ∧
    (isBoolKind a = false → logicArr au a b op = .error .boolOp ∧ invert au a = .error .boolOp ∧
        ∀ x, logicScalar au a op x = .error .boolOp) := by
  refine ⟨?_, ?_, ?_⟩
  · intro hb
    refine ⟨asnew au a (List.zipWith (logicVal op) (values au a) (values au b)) a.kind, by simp [logicArr, hb], ?_⟩
    intro i hi
    rw [asnew_cell au a _ _ hnd hin (by simp [values, gather]) i hi]
    simp [values, gather]
  · intro hb
    refine ⟨asnew au a ((values au a).map notVal) a.kind, by simp [invert, hb], ?_⟩
    intro i hi
    rw [asnew_cell au a _ _ hnd hin (by simp [values, gather]) i hi]
    simp [values, gather]
  · intro hb; simp [logicArr, invert, logicScalar, hb]

/-- `~` exchanges `true()` and `false()` (so `(~b).uids = b.false()`), given well-defined active cells. -/
theorem C11_invert_swaps (au : List Nat) (a r : Arr) (hnd : au.Nodup) (hin : inRange a au = true)
    (hdef : ∀ u ∈ au, (a.cell u).isUndef = false) (h : invert au a = .ok r) :
    trueUids au r = falseUids au a := by
  by_cases hb : isBoolKind a = true
  · simp only [invert, hb, ↓reduceIte, Except.ok.injEq] at h
    subst h
    simp only [trueUids, falseUids]
    apply List.filter_congr
    intro u hu
    obtain ⟨i, hi, rfl⟩ := List.getElem_of_mem hu
    rw [asnew_cell au a _ _ hnd hin (by simp [values, gather]) i hi]
    simp [values, gather, notVal, hdef _ hu, Val.truthy]
  · simp [invert, hb] at h

/-! ### uid set algebra -/

/-- **uid algebra.** `unique`, `remove` (`-`), `intersect` (`&`), `union` (`|`), `xor` (`^`) return strictly increasing
    (hence sorted and duplicate-free) lists with exactly the mathematical membership; `concat`/`cat` append. -/
theorem C11_uid_algebra (a b : List Nat) :
    ((Uids.unique a).Pairwise (· < ·) ∧ ∀ x, x ∈ Uids.unique a ↔ x ∈ a) ∧
    ((Uids.remove a b).Pairwise (· < ·) ∧ ∀ x, x ∈ Uids.remove a b ↔ (x ∈ a ∧ x ∉ b)) ∧
    ((Uids.intersect a b).Pairwise (· < ·) ∧ ∀ x, x ∈ Uids.intersect a b ↔ (x ∈ a ∧ x ∈ b)) ∧
    ((Uids.union a b).Pairwise (· < ·) ∧ ∀ x, x ∈ Uids.union a b ↔ (x ∈ a ∨ x ∈ b)) ∧
    ((Uids.xor a b).Pairwise (· < ·) ∧ ∀ x, x ∈ Uids.xor a b ↔ ((x ∈ a ∧ x ∉ b) ∨ (x ∉ a ∧ x ∈ b))) ∧
    Uids.concat a b = a ++ b := by
  refine ⟨⟨Uids.sorted_unique a, fun x => Uids.mem_unique x a⟩, ⟨(Uids.sorted_unique a).filter _, ?_⟩,
    ⟨(Uids.sorted_unique a).filter _, ?_⟩, ⟨Uids.sorted_unique _, ?_⟩, ⟨(Uids.sorted_unique _).filter _, ?_⟩, rfl⟩
  · intro x; simp [Uids.remove, List.mem_filter, Uids.mem_unique]
  · intro x; simp [Uids.intersect, List.mem_filter, Uids.mem_unique]
  · intro x; simp [Uids.union, Uids.mem_unique]
  · intro x
    simp only [Uids.xor, List.mem_filter, Uids.mem_unique, List.mem_append, List.contains_eq_mem, bne_iff_ne, ne_eq]
    by_cases ha : x ∈ a <;> by_cases hb : x ∈ b <;> simp [ha, hb]

/-- strictly increasing lists have no duplicates -/
theorem C11_uid_algebra_nodup (a b : List Nat) :
    (Uids.unique a).Nodup ∧ (Uids.remove a b).Nodup ∧ (Uids.intersect a b).Nodup ∧ (Uids.union a b).Nodup ∧ (Uids.xor a b).Nodup := by
  have key : ∀ l : List Nat, l.Pairwise (· < ·) → l.Nodup := fun l h => h.imp (fun h => Nat.ne_of_lt h)
  have h := C11_uid_algebra a b
  exact ⟨key _ h.1.1, key _ h.2.1.1, key _ h.2.2.1.1, key _ h.2.2.2.1.1, key _ h.2.2.2.2.1.1⟩

/-- `uids.cat` of several arrays is their concatenation in order -/
theorem C11_uid_cat (ls : List (List Nat)) (x : Nat) : x ∈ Uids.cat ls ↔ ∃ l ∈ ls, x ∈ l := by
  simp [Uids.cat]

/-! ### Growth: defaults reach exactly the new agents, everything else is preserved -/

/-- **Grow.** For a well-formed array over `n` identifiers (`len_used = n ≤ len_tot = len(raw)`), growing by the `k`
    fresh identifiers `n … n+k-1` succeeds, keeps it well-formed over `n+k` (also across a reallocation), preserves the
    value of every existing identifier, and gives the `i`-th new identifier the `i`-th value of the declared default
    (constant, nan when unset, callable, or distribution draw). -/
theorem C11_grow_defaults (a : Arr) (n k : Nat) (h : WF n a) (hd : (defaultVals a (newIds n k)).length = k) :
    ∃ a', grow a (newIds n k) none = .ok a' ∧ WF (n + k) a' ∧
      (∀ u, u < n → a'.cell u = a.cell u) ∧
      (∀ (i : Nat) (hi : i < k), a'.cell (n + i) = (defaultVals a (newIds n k))[i]) := by
  obtain ⟨a', hg, hwf, _, _, _, hc⟩ := grow_spec a n k h hd
  refine ⟨a', hg, hwf, ?_, ?_⟩
  · intro u hu
    rw [hc u (by omega), updMany_not_mem]
    intro hm; have := (mem_newIds n k u).mp hm; omega
  · intro i hi
    rw [hc (n + i) (by omega)]
    have := updMany_nodup (newIds n k) (defaultVals a (newIds n k)) a.cell (newIds_nodup n k) i (by simpa using hi) (by omega)
    rw [newIds_getElem] at this
    exact this

/-- the four default kinds, spelled out -/
theorem C11_default_kinds (a : Arr) (us : List Nat) :
    (∀ v, a.default = .const v → defaultVals a us = List.replicate us.length v) ∧
    (a.default = .unset → defaultVals a us = List.replicate us.length a.nan) ∧
    (∀ f, a.default = .fn f → (f us.length).length = us.length → defaultVals a us = f us.length) ∧
    (∀ d, a.default = .dist d → (d us).length = us.length → defaultVals a us = d us) := by
  refine ⟨?_, ?_, ?_, ?_⟩
  · intro v h; simp [defaultVals, defaultRhs, h, rhsVals]
  · intro h; simp [defaultVals, defaultRhs, h, rhsVals]
  · intro f h hl; simp [defaultVals, defaultRhs, h, rhsVals, hl]
  · intro d h hl; simp [defaultVals, defaultRhs, h, rhsVals, hl]

/-- a default producing the wrong number of values makes `grow` raise instead of mis-assigning -/
theorem C11_grow_bad_default (a : Arr) (us : List Nat) (vs : List Val) (f : Nat → List Val) (hf : a.default = .fn f)
    (hv : f us.length = vs) (h1 : vs.length ≠ us.length) (h2 : vs.length ≠ 1) : grow a us none = .error .value := by
  rw [grow_eq]
  simp [defaultRhs, hf, hv, rhsOk, h1, h2]


/-! ### Refinement for every history of grow / remove / assign -/

theorem defaultVals_congr (a b : Arr) (h1 : b.nan = a.nan) (h2 : b.default = a.default) (us : List Nat) :
    defaultVals b us = defaultVals a us := by
  simp [defaultVals, defaultRhs, h1, h2]

theorem sim_step {kind : Kind} {dflt : List Nat → List Val} {h : Hist} {r : RefMap} (s : Sim kind dflt h r) (op : HOp)
    (hv : HOp.valid kind dflt r op) : Sim kind dflt (h.step op) (r.step kind dflt op) := by
  cases op with
  | grow k =>
      have hd : (defaultVals h.arr (newIds h.n k)).length = k := by
        rw [s.dflt, s.n]; exact hv
      obtain ⟨a', hg, hwf, hnan, hdef, hkind, hc⟩ := grow_spec h.arr h.n k s.wf hd
      simp only [Hist.step, hg, RefMap.step]
      refine ⟨by rw [hkind]; exact s.kind, by simp [s.au, s.n], by simp [s.n], hwf, ?_, ?_, ?_, ?_⟩
      · intro u hu
        rw [hc u hu, ← s.n, ← s.dflt]
        apply updMany_congr
        by_cases hlt : u < h.n
        · left; exact s.cells u hlt
        · right
          rw [zip_fst_of_length_eq _ _ (by simp [hd])]
          exact (mem_newIds h.n k u).mpr ⟨by omega, hu⟩
      · intro us; rw [defaultVals_congr h.arr a' hnan hdef]; exact s.dflt us
      · intro u hu
        rcases List.mem_append.mp hu with hu | hu
        · have := s.active u hu; show u < h.n + k; omega
        · exact ((mem_newIds h.n k u).mp hu).2
      · show (h.au ++ newIds h.n k).Nodup
        rw [List.nodup_append]
        refine ⟨s.nodup, newIds_nodup _ _, ?_⟩
        intro a ha b hb hab
        have := s.active a ha
        have := (mem_newIds h.n k b).mp hb
        omega
  | remove dead =>
      simp only [Hist.step, RefMap.step, removeActive]
      refine ⟨s.kind, by simp [s.au], s.n, s.wf, s.cells, s.dflt, ?_, s.nodup.filter _⟩
      intro u hu; exact s.active u (List.mem_filter.mp hu).1
  | assign us rhs0 =>
      obtain ⟨⟨rhs, hcast, hok⟩, hlt⟩ := hv
      have hr : inRange h.arr us = true := by
        simp only [inRange, List.all_eq_true, decide_eq_true_eq]
        intro u hu; have := hlt u hu; have := s.wf.le; have := s.n; omega
      obtain ⟨a', hset, hlu, hlt', hlen, hnan, hdef, hkind, hcell, _⟩ :=
        C11_set_uids codeVariant h.au h.arr us rhs0 rhs (by rw [s.kind]; exact hcast) hr hok
      simp only [Hist.step, hset, RefMap.step, hcast]
      refine ⟨by rw [hkind]; exact s.kind, s.au, s.n,
        ⟨by rw [hlu]; exact s.wf.used, by rw [hlt', hlen]; exact s.wf.tot, by rw [hlen]; exact s.wf.le⟩, ?_, ?_, s.active, s.nodup⟩
      · intro u hu
        rw [hcell u]
        apply updMany_congr
        left; exact s.cells u hu
      · intro us'; rw [defaultVals_congr h.arr a' hnan hdef]; exact s.dflt us'

theorem sim_run {kind : Kind} {dflt : List Nat → List Val} : ∀ (ops : List HOp) {h : Hist} {r : RefMap}, Sim kind dflt h r →
    validRun kind dflt r ops → Sim kind dflt (h.run ops) (r.run kind dflt ops)
  | [], _, _, s, _ => s
  | op :: ops, h, r, s, hv => by
      simp only [Hist.run, RefMap.run, List.foldl_cons]
      exact sim_run ops (sim_step s op hv.1) hv.2

/-- **Refinement.** Start from an empty, freshly constructed array of any kind / nan / default.  After *every* sequence
    of `People.grow`, removals and identifier assignments the code accepts (values are stored cast to the dtype), looking
    an identifier up through the array (`abs`: the stored cell if the identifier is active, nothing otherwise) gives
    exactly what the reference map gives; in particular `values` is the reference map listed over the active
    identifiers, in the reference's order. -/
theorem C11_refinement (kind : Kind) (nanV : Val) (d : Default) (ops : List HOp)
    (hv : validRun kind (defaultVals (fresh kind nanV d)) ⟨[], 0, fun _ => .undef⟩ ops) :
    let h := (Hist.mk [] 0 (fresh kind nanV d)).run ops
    let r := (RefMap.mk [] 0 (fun _ => .undef)).run kind (defaultVals (fresh kind nanV d)) ops
    (∀ u, abs h.au h.arr u = r.lookup u) ∧ values h.au h.arr = r.active.map r.m ∧ h.au = r.active ∧
    WF r.n h.arr ∧ r.active.Nodup ∧ ∀ u ∈ r.active, u < r.n := by
  have s0 : Sim kind (defaultVals (fresh kind nanV d)) (Hist.mk [] 0 (fresh kind nanV d)) ⟨[], 0, fun _ => .undef⟩ :=
    ⟨rfl, rfl, rfl, ⟨rfl, rfl, by simp [fresh]⟩, by intro u hu; exact absurd hu (Nat.not_lt_zero u), fun _ => rfl, by simp, by simp⟩
  have s := sim_run ops s0 hv
  refine ⟨?_, ?_, s.au, by rw [← s.n]; exact s.wf, by rw [← s.au]; exact s.nodup, by rw [← s.au, ← s.n]; exact s.active⟩
  · intro u
    simp only [abs, RefMap.lookup, s.au]
    by_cases hu : u ∈ (RefMap.run kind (defaultVals (fresh kind nanV d)) ⟨[], 0, fun _ => .undef⟩ ops).active
    · simp only [hu, ↓reduceIte, Option.some.injEq]
      exact s.cells u (s.active u (by rw [s.au]; exact hu))
    · simp [hu]
  · simp only [values, gather, s.au]
    apply List.map_congr_left
    intro u hu
    exact s.cells u (s.active u (by rw [s.au]; exact hu))

/-- Non-vacuity: a concrete history (create 3, assign, remove the first, grow across a reallocation, assign by list)
    is accepted, and the model computes the expected active view (the NaN assigned into the Boolean array is stored as `True`,
    as NumPy's cast does). -/
example :
    let ops := [HOp.grow 3, .assign [0, 2] (.scalar (.bool true)), .remove [0], .grow 2, .assign [4, 1] (.list [.nan, .bool true])]
    let h := (Hist.mk [] 0 (fresh .bool (.bool false) (.const (.bool false)))).run ops
    h.au = [1, 2, 3, 4] ∧ values h.au h.arr = [.bool true, .bool true, .bool false, .bool true] ∧ h.arr.lenTot = 5 ∧ h.arr.lenUsed = 5 := by
  decide

example : validRun .bool (defaultVals (fresh .bool (.bool false) (.const (.bool false)))) ⟨[], 0, fun _ => .undef⟩
    [HOp.grow 3, .assign [0, 2] (.scalar (.bool true)), .remove [0], .grow 2] := by
  simp [validRun, HOp.valid, RefMap.step, defaultVals, defaultRhs, fresh, rhsVals, rhsOk, newIds, castRhs, castVal, Val.truthy]


/-! ### Integer keys -/

/-- **int index, as specified** (class docstring and property): `arr[i]` is the value of the `i`-th *active* agent,
    negative `i` counting from the end; out of range raises. -/
theorem C11_int_index_spec (au : List Nat) (a : Arr) (i : Nat) (hi : i < au.length) (hin : inRange a au = true) :
    getItem .spec au a (.int i) = .ok (.one ((values au a)[i]'(by simpa [values, gather] using hi))) ∧
    getItem .spec au a (.int ((i : Int) - au.length)) = .ok (.one ((values au a)[i]'(by simpa [values, gather] using hi))) ∧
    getItem .spec au a (.int au.length) = .error .index := by
  have hall : ∀ u ∈ au, u < a.raw.length := by simpa [inRange] using hin
  have hu : au[i] < a.raw.length := hall _ (List.getElem_mem hi)
  have h1 : ¬ ((i : Int) < 0) := by omega
  have h2 : (i : Int) < au.length := by omega
  have h3 : ((i : Int) - au.length) < 0 := by omega
  have h4 : 0 ≤ ((i : Int) - au.length + au.length) ∧ ((i : Int) - au.length + au.length) < au.length := by omega
  have h5 : ((i : Int) - au.length + au.length).toNat = i := by omega
  refine ⟨?_, ?_, ?_⟩
  · simp [getItem, convertKey, h1, h2, inRange, hu, values, gather, List.getD_eq_getElem?_getD, hi]
  · simp [getItem, convertKey, h3, h4, h5, inRange, hu, values, gather, List.getD_eq_getElem?_getD, hi]
  · have h6 : ¬ ((au.length : Int) < 0) := by omega
    simp [getItem, convertKey, h6]

/-- **int index, as is**: today the key is passed through unchanged and addresses *storage* position `i`. -/
theorem C11_int_index_asis (au : List Nat) (a : Arr) (i : Nat) (hi : i < a.raw.length) :
    getItem .asis au a (.int i) = .ok (.one (a.cell i)) := by
  have h1 : ¬ ((i : Int) < 0) := by omega
  have h2 : (i : Int) < a.raw.length := by omega
  simp [getItem, convertKey, pyPos, h1, h2]

/-- the two readings agree as long as nobody has been removed (active index = `0 … n-1`) -/
theorem C11_int_index_agree_no_removal (a : Arr) (n i : Nat) (hi : i < n) (hn : n ≤ a.raw.length) :
    getItem .asis (List.range n) a (.int i) = getItem .spec (List.range n) a (.int i) := by
  have hin : inRange a (List.range n) = true := by
    simp only [inRange, List.all_eq_true, decide_eq_true_eq, List.mem_range]; intro u hu; omega
  rw [C11_int_index_asis _ a i (by omega), (C11_int_index_spec (List.range n) a i (by simpa using hi) hin).1]
  simp [values, gather]

/-- **Counterexample (kernel-checked).** Three agents with values `T, F, F`; agent 0 is removed.  The first active agent
    (uid 1) has value `F`, but `arr[0]` in the as-is model returns the removed agent's `T`; the specified reading
    returns `F`.  So the full property "int indexing sees only active agents" is false of today's code. -/
theorem C11_int_index_asis_counterexample :
    let a : Arr := { raw := [.bool true, .bool false, .bool false], lenUsed := 3, lenTot := 3, nan := .bool false,
                     default := .unset, kind := .bool }
    let au := removeActive [0, 1, 2] [0]
    values au a = [.bool false, .bool false] ∧
    getItem .asis au a (.int 0) = .ok (.one (.bool true)) ∧
    getItem .spec au a (.int 0) = .ok (.one (.bool false)) ∧
    abs au a 0 = none := by
  intro a au
  exact ⟨by decide, by rfl, by rfl, by decide⟩

/-- the variant the regenerated `_convert_key` table selects is one of the two modelled ones, and it is `spec`
    exactly when the int branch goes through `auids` -/
theorem C11_code_variant : (codeVariant = .spec ↔ Gen.intKeyViaActive = true) ∧ (codeVariant = .asis ↔ Gen.intKeyViaActive = false) := by
  unfold codeVariant; cases Gen.intKeyViaActive <;> simp

/-! ### Non-vacuity -/

/-- a concrete non-trivial state meeting the hypotheses used above (`Nodup`, `inRange`, `WF`) -/
example :
    let a : Arr := { raw := [.num 1, .num 2, .nan, .num 4, .nan], lenUsed := 4, lenTot := 5, nan := .nan, default := .const (.num 7), kind := .float }
    let au := [1, 3, 2]
    au.Nodup ∧ inRange a au = true ∧ WF 4 a ∧ (defaultVals a (newIds 4 2)).length = 2 ∧
    trueUids au (cmpScalar au a .gt (.num 3)) = [3] ∧ falseUids au (cmpScalar au a .gt (.num 3)) = [1, 2] ∧
    (cmpScalar au a .gt (.num 3)).raw = [.undef, .bool false, .bool false, .bool true, .undef] := by
  refine ⟨by decide, by decide, ⟨rfl, rfl, by decide⟩, by decide, by decide, by decide, by decide⟩

example : Uids.xor [3, 1, 1, 5] [5, 9] = [1, 3, 9] ∧ Uids.remove [4, 2, 2, 7] [7] = [2, 4] ∧ Uids.union [2, 1] [1, 0] = [0, 1, 2] := by
  decide

example : sliceUids [1, 2, 4, 5, 6] (some 1) none (some 2) = some [2, 5] ∧ sliceUids [1, 2, 4, 5, 6] none none (some (-2)) = some [6, 4, 1] ∧
    sliceUids [1, 2, 4] (some (-2)) (some 10) none = some [2, 4] := by decide


/-! ### Casting on assignment -/

/-- **Cast.** `arr[uids] = value` stores the value *cast to the array's dtype* — truthiness for Boolean arrays, `True → 1.0`
    for float arrays, truncation toward zero for integer arrays — and refuses what the dtype cannot hold (NaN into an
    integer array).  Consequently every cell keeps the array's dtype after any accepted assignment. -/
theorem C11_set_cast (v : Variant) (au : List Nat) (a : Arr) (us : List Nat) (rhs0 : Rhs) :
    (castRhs a.kind rhs0 = none → setItem v au a (.uids us) rhs0 = .error .value) ∧
    (∀ a', setItem v au a (.uids us) rhs0 = .ok a' → (∀ x, conforms a.kind (a.cell x) = true) → ∀ x, conforms a'.kind (a'.cell x) = true) := by
  constructor
  · intro hc; cases v <;> simp [setItem, convertKey, hc]
  · intro a' hset hconf x
    cases hc : castRhs a.kind rhs0 with
    | none => cases v <;> simp [setItem, convertKey, hc] at hset
    | some rhs =>
        by_cases hok : rhsOk us rhs = true
        · by_cases hr : inRange a us = true
          · obtain ⟨a'', hset', _, _, _, _, _, hk, hcell, _⟩ := C11_set_uids v au a us rhs0 rhs hc hr hok
            rw [hset'] at hset; cases hset
            rw [hk, hcell x]
            rcases updMany_mem a.cell us (rhsVals us.length rhs) x with h | h
            · rw [h]; exact hconf x
            · -- the written value is one of the cast values
              have hall : ∀ w ∈ rhsVals us.length rhs, conforms a.kind w = true := by
                cases rhs0 with
                | scalar s =>
                    simp only [castRhs, Option.map_eq_some_iff] at hc
                    obtain ⟨c, hcv, rfl⟩ := hc
                    intro w hw
                    simp only [rhsVals, List.mem_replicate] at hw
                    rw [hw.2]; exact castVal_conforms _ _ _ hcv
                | list l =>
                    simp only [castRhs, Option.map_eq_some_iff] at hc
                    obtain ⟨cs, hm, rfl⟩ := hc
                    have hcs := castList_conforms a.kind l cs hm
                    intro w hw
                    simp only [rhsVals] at hw
                    split at hw
                    · exact hcs w hw
                    · split at hw
                      · rename_i c _
                        simp only [List.mem_replicate] at hw
                        rw [hw.2]; exact hcs c (by simp)
                      · exact hcs w hw
              exact hall _ h
          · cases v <;> simp [setItem, convertKey, hc, hok, hr] at hset
        · cases v <;> simp [setItem, convertKey, hc, hok] at hset

/-- the casts on concrete values (kernel-checked; fractional values are exercised by the correspondence) -/
example : castVal .bool .nan = some (.bool true) ∧ castVal .bool (.bool false) = some (.bool false) ∧
    castVal .float (.bool true) = some (.num 1) ∧ castVal .float .nan = some .nan ∧
    castVal .generic .nan = none ∧ castVal .index .nan = none ∧ castVal .float .undef = some .undef := by
  decide

/-! ### Identifier arrays with negative entries -/

/-- **Negative identifiers wrap.** An `ss.uids` array is a NumPy integer index: the entry `-j` (`1 ≤ j ≤ len(raw)`)
    silently addresses storage cell `len(raw) - j` (spare capacity or another agent — e.g. `arr[people.parent]` with
    its `-1`), anything outside `[-len(raw), len(raw))` raises `IndexError`, and a non-negative array behaves exactly
    like the same identifiers. -/
theorem C11_negative_uid_wraps (v : Variant) (au : List Nat) (a : Arr) :
    (∀ j : Nat, 1 ≤ j → j ≤ a.raw.length → getItem v au a (.ruids [-(j : Int)]) = .ok (.vals [a.cell (a.raw.length - j)])) ∧
    (∀ j : Nat, a.raw.length < j → getItem v au a (.ruids [-(j : Int)]) = .error .index) ∧
    (∀ i : Nat, a.raw.length ≤ i → getItem v au a (.ruids [(i : Int)]) = .error .index) ∧
    (∀ us : List Nat, inRange a us = true → getItem v au a (.ruids (us.map (fun (u : Nat) => (u : Int)))) = getItem v au a (.uids us)) := by
  refine ⟨?_, ?_, ?_, ?_⟩
  · intro j h1 h2
    have e4 : a.raw.length - j < a.raw.length := by omega
    have hw : wrapIds a.raw.length [-(j : Int)] = some [a.raw.length - j] := by
      simp [wrapIds, wrapOne_neg _ _ h1 h2]
    cases v <;> simp [getItem, convertKey, hw, inRange, e4, gather]
  · intro j h
    have hw : wrapIds a.raw.length [-(j : Int)] = none := by simp [wrapIds, wrapOne_too_neg _ _ h]
    cases v <;> simp [getItem, convertKey, hw]
  · intro i h
    have hn : ¬ i < a.raw.length := by omega
    have hw : wrapIds a.raw.length [(i : Int)] = none := by simp [wrapIds, wrapOne_nat, hn]
    cases v <;> simp [getItem, convertKey, hw]
  · intro us hr
    have hall : ∀ u ∈ us, u < a.raw.length := by simpa [inRange] using hr
    have hw := wrapIds_nat a.raw.length us hall
    cases v <;> simp [getItem, convertKey, hw, hr]

/-! ### `grow` with arbitrary new identifiers -/

/-- **Grow, general.** For *any* list of new identifiers (not only the fresh `n … n+k-1` that `People.grow` passes):
    `grow` succeeds exactly when the values broadcast against the identifiers and every identifier lies inside the
    (possibly reallocated) storage; then `len_used` grows by their number, every named identifier holds its value
    (last write wins), and every other existing identifier keeps its value. -/
theorem C11_grow_general (a : Arr) (n : Nat) (us : List Nat) (nv : Option Rhs) (h : WF n a) (rhs : Rhs)
    (hrhs : rhs = (match nv with | some r => r | none => defaultRhs a us)) :
    (rhsOk us rhs = false → grow a us nv = .error .value) ∧
    (rhsOk us rhs = true → inRange (growStore a us.length) us = false → grow a us nv = .error .index) ∧
    (rhsOk us rhs = true → inRange (growStore a us.length) us = true → ∃ a', grow a us nv = .ok a' ∧ WF (n + us.length) a' ∧
        (∀ x, a'.cell x = updMany (growStore a us.length).cell us (rhsVals us.length rhs) x) ∧
        (∀ x, x < n → x ∉ us → a'.cell x = a.cell x)) := by
  obtain ⟨hwf, _, _, _, hcell⟩ := growStore_spec a n us.length h
  have hg : grow a us nv = (if !rhsOk us rhs then .error .value else if !inRange (growStore a us.length) us then .error .index
      else .ok { growStore a us.length with raw := assignRaw (growStore a us.length).raw us rhs }) := by
    rw [grow_eq]; cases nv <;> (simp only at hrhs; subst hrhs; rfl)
  refine ⟨?_, ?_, ?_⟩
  · intro hok; rw [hg]; simp [hok]
  · intro hok hr; rw [hg]; simp [hok, hr]
  · intro hok hr
    have hin : ∀ u ∈ us, u < (growStore a us.length).raw.length := by simpa [inRange] using hr
    refine ⟨{ growStore a us.length with raw := assignRaw (growStore a us.length).raw us rhs }, ?_,
      ⟨hwf.used, by simpa using hwf.tot, by simpa using hwf.le⟩, ?_, ?_⟩
    · rw [hg]; simp [hok, hr]
    · intro x; simp only [Arr.cell]; exact assignRaw_eq_updMany _ us rhs hok hin x
    · intro x hx hnot
      simp only [Arr.cell]
      rw [assignRaw_getD_not_mem _ us rhs x hnot]
      exact hcell x (by omega)

/-! ### Views: `isnan`, `notnan`, `notnanvals`, `split`, arithmetic -/

/-- **Every view sees only active agents.** Two arrays of the same class that agree on the active identifiers (whatever
    removed agents and spare capacity hold — stale values, `np.empty` junk) have the same `values`, `true()`, `false()`,
    `split()`, `notnanvals`, and their `isnan` / `notnan` / comparison / arithmetic results agree on every active agent. -/
theorem C11_views_active (au : List Nat) (a b : Arr) (h : ∀ u ∈ au, a.cell u = b.cell u) :
    values au a = values au b ∧ trueUids au a = trueUids au b ∧ falseUids au a = falseUids au b ∧ split au a = split au b ∧
    notnanvals au a = notnanvals au b := by
  have hv : values au a = values au b := by simp only [values, gather]; exact List.map_congr_left h
  have ht : trueUids au a = trueUids au b := List.filter_congr (fun u hu => by rw [h u hu])
  have hf : falseUids au a = falseUids au b := List.filter_congr (fun u hu => by rw [h u hu])
  exact ⟨hv, ht, hf, by simp [split, ht, hf], by simp [notnanvals, hv]⟩

/-- `notnanvals` lists, in active order, the values of exactly the active agents whose value is not NaN -/
theorem C11_notnanvals (au : List Nat) (a : Arr) :
    notnanvals au a = (au.filter (fun u => !(a.cell u == .nan))).map a.cell := by
  simp only [notnanvals, values, gather, List.filter_map]
  rfl

/-- `split()` is `(true(), false())`: an ordered partition of the active identifiers -/
theorem C11_split (au : List Nat) (a : Arr) :
    split au a = (trueUids au a, falseUids au a) ∧ ((split au a).1 ++ (split au a).2).Perm au ∧
    (∀ u, u ∈ (split au a).2 → u ∈ au) := by
  refine ⟨rfl, (C11_true_false_partition au a).2.2.1, ?_⟩
  intro u hu; exact (List.mem_filter.mp hu).1

/-- **isnan / notnan.** On a float array `isnan` flags exactly the active agents holding NaN and `notnan` the others;
    a Boolean array is never NaN; any other array compares with its own `nan` marker. -/
theorem C11_isnan (au : List Nat) (a : Arr) (hnd : au.Nodup) (hin : inRange a au = true)
    (hdef : ∀ u ∈ au, (a.cell u).isUndef = false) :
    (a.kind = .float → trueUids au (isnan au a) = au.filter (fun u => a.cell u == .nan) ∧
        trueUids au (notnan au a) = au.filter (fun u => !(a.cell u == .nan))) ∧
    (a.kind = .bool → trueUids au (isnan au a) = [] ∧ trueUids au (notnan au a) = au) ∧
    (a.kind = .generic ∨ a.kind = .index → isnan au a = cmpScalar au a .eq a.nan ∧ notnan au a = cmpScalar au a .ne a.nan) := by
  refine ⟨?_, ?_, ?_⟩
  · intro hk
    constructor
    · simp only [isnan, hk, trueUids]
      apply List.filter_congr
      intro u hu
      obtain ⟨i, hi, rfl⟩ := List.getElem_of_mem hu
      rw [asnew_cell au a _ _ hnd hin (by simp [values, gather]) i hi]
      have hd := hdef _ hu
      simp only [values, gather, List.getElem_map]
      revert hd; cases a.cell au[i] <;> simp [isNanCell, Val.truthy, Val.isUndef]
    · simp only [notnan, hk, trueUids]
      apply List.filter_congr
      intro u hu
      obtain ⟨i, hi, rfl⟩ := List.getElem_of_mem hu
      rw [asnew_cell au a _ _ hnd hin (by simp [values, gather]) i hi]
      have hd := hdef _ hu
      simp only [values, gather, List.getElem_map]
      revert hd; cases a.cell au[i] <;> simp [isNanCell, notVal, Val.truthy, Val.isUndef]
  · intro hk
    constructor
    · simp only [isnan, hk, trueUids]
      rw [List.filter_eq_nil_iff]
      intro u hu
      obtain ⟨i, hi, rfl⟩ := List.getElem_of_mem hu
      rw [asnew_cell au a _ _ hnd hin (by simp [values, gather]) i hi]
      simp [values, gather, Val.truthy]
    · simp only [notnan, hk, trueUids]
      rw [List.filter_eq_self]
      intro u hu
      obtain ⟨i, hi, rfl⟩ := List.getElem_of_mem hu
      rw [asnew_cell au a _ _ hnd hin (by simp [values, gather]) i hi]
      simp [values, gather, Val.truthy]
  · rintro (hk | hk) <;> simp [isnan, notnan, hk]

/-- **Arithmetic through `__array_ufunc__`.** `arr <op> x` and `arr <op> arr2` are computed on the active view and written
    back at the active identifiers: every active agent's cell holds `cell <op> x`. -/
theorem C11_arith (au : List Nat) (a b : Arr) (op : Arith) (x : Val) (hnd : au.Nodup) (hin : inRange a au = true)
    (i : Nat) (hi : i < au.length) :
    (arithScalar au a op x).cell au[i] = arithVal op (a.cell au[i]) x ∧
    (arithArr au a b op).cell au[i] = arithVal op (a.cell au[i]) (b.cell au[i]) ∧
    (arithScalar au a op x).kind = a.kind := by
  refine ⟨?_, ?_, rfl⟩
  · rw [arithScalar, asnew_cell au a _ _ hnd hin (by simp [values, gather]) i hi]; simp [values, gather]
  · rw [arithArr, asnew_cell au a _ _ hnd hin (by simp [values, gather]) i hi]; simp [values, gather]

/-- `set_nan(uids)` writes the array's `nan` marker at exactly those identifiers -/
theorem C11_set_nan (a : Arr) (us : List Nat) (hr : inRange a us = true) :
    ∃ a', setNan a us = .ok a' ∧ a'.raw.length = a.raw.length ∧ ∀ x, a'.cell x = if x ∈ us then a.nan else a.cell x := by
  have hall : ∀ u ∈ us, u < a.raw.length := by simpa [inRange] using hr
  refine ⟨{ a with raw := scatterConst a.raw us a.nan }, by simp [setNan, hr], by simp, ?_⟩
  intro x
  simp only [Arr.cell]
  rw [scatterConst_getD]
  by_cases hx : x ∈ us
  · have := hall x hx; simp [hx, this]
  · simp [hx]

/-- an `Arr` that is neither a `BoolArr` nor an `IndexArr` is not accepted as a key (unless nobody is active, when its
    length is 0 and it is taken for an empty key) -/
theorem C11_arr_key_rejected (v : Variant) (au : List Nat) (a k : Arr) (hk : isBoolKind k = false) (hne : au ≠ []) :
    getItem v au a (.boolArr k) = .error .ambiguous := by
  have : au.isEmpty = false := by cases au <;> simp_all
  cases v <;> simp [getItem, convertKey, hk, this]

example : notnanvals [0, 2, 3] { raw := [.num 1, .num 5, .nan, .num 2, .nan], lenUsed := 4, lenTot := 5, nan := .nan, default := .unset, kind := .float }
    = [.num 1, .num 2] := by decide


end StarsimModel.C11
