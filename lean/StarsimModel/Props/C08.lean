/-
C08 — Each module steps exactly once per own time point, in phase order.

Property theorems only (helper lemmas: Lemmas/Loop.lean; model: Model/Loop.lean).
`Gen.loopRows` (the statement sequence of `Loop.collect_funcs`) and `Gen.timeEps` are regenerated from
/repo/starsim/loop.py and settings.py on every run; the theorems below that mention `Gen.…` are obligations on
the regenerated table.  Times are `Int` multiples of `time_eps`; all statements are for arbitrary module sets,
arbitrary strictly increasing time vectors and any key-sorted permutation of the cross product (`IsPlan`),
whatever sorting algorithm produced it.
-/
import StarsimModel.Lemmas.Loop
import StarsimModel.Lemmas.LoopInstant

namespace StarsimModel.C08
open StarsimModel.Loop
open StarsimModel.LoopInstant

/-! ### Obligations on the regenerated table -/

/-- **Phase order.** The statement sequence of `collect_funcs`, projected to phases, is the documented sequence:
    start of step; demographics; disease state updates; connectors; networks; interventions; transmission;
    death resolution; result recording; analyzers; end of step.  Every row belongs to a documented phase. -/
theorem C08_phase_order_is_documented :
    compress (Gen.loopRows.map phaseOf) = documentedPhases.map some ∧
    Gen.loopRows = documentedRows := by decide

/-- The table of the shared extractor (`Generated/PhaseOrder.lean`, guards verbatim) lists the same containers and
    methods in the same order as the variable-abstracted one the model interprets. -/
theorem C08_tables_agree :
    Gen.collectFuncs.map (fun r => (r.1, r.2.1)) = Gen.loopRows.map (fun r => (r.1, r.2.1)) := by decide

/-- `Loop.__iadd__`: a function is scheduled on the `abs_tvecs` entry found under the NAME of the object it is bound
    to (module name, else lower-cased class name) — the model's `schedOwner` — and numbered by its position. -/
theorem C08_iadd_extracted :
    Gen.iaddOwnerKey = "parent.name if isinstance(parent, ss.Module) else parent.__class__.__name__.lower()" ∧
    Gen.iaddFuncOrder = "len(self.funcs)" := by decide

/-- A completed sim refuses `run` before touching anything (so a redundant `run()` cannot move the clocks off their
    final index; the state machine is C09's `Model/RunState.lean`). -/
theorem C08_completed_run_guarded :
    ("run", "self.complete") ∈ Gen.alreadyRunGuards ∧ ("start_step", "self.complete") ∈ Gen.alreadyRunGuards := by
  decide

/-- Every container expression and guard of the table is one the model interprets. -/
theorem C08_table_understood : ∀ r ∈ Gen.loopRows, contIsSim r ≠ none := by decide

/-- No function of an owner is collected after the owner's clock-incrementing `finish_step`
    (in particular `sim.finish_step` comes after every `people.*` function, which read the sim's clock). -/
theorem C08_table_finish_last : tableFinishLast Gen.loopRows.zipIdx := by decide

/-- The sim and every module get an (unguarded) `finish_step`. -/
theorem C08_table_has_finish :
    ("sim", "finish_step", "") ∈ Gen.loopRows ∧ ("sim.modules", "finish_step", "") ∈ Gen.loopRows := by
  decide

/-- The tie-break unit: `time_eps = 10⁻⁶`, matching the 6 decimals `round_tvec` keeps (times are integer
    multiples of eps). -/
theorem C08_eps_matches_rounding : Gen.timeEps * 1000000 = 1 := by decide +kernel

/-- `Sim.modules` chains the containers in the order the model uses (`chainOrder`). -/
theorem C08_modules_chain_is_model : Gen.modulesChain = chainOrder.map Kind.name := by decide

/-- The only clock updates in `Sim`, `Module` and `Loop`: `finish_step` increments by one (sim and module), `Sim.run`
    decrements the sim's and every module's clock by one on completion.  In particular `start_step` and `step` do
    not touch a clock (the model's `bump` / `afterRun`). -/
theorem C08_clock_writes :
    Gen.tiWrites = [("Sim", "finish_step", "self.t.ti", "+", "1"), ("Sim", "run", "self.t.ti", "-", "1"),
                    ("Sim", "run", "mod.t.ti", "-", "1"), ("Module", "finish_step", "self.t.ti", "+", "1")] := by decide

/-- `people.*` functions are scheduled on the sim's time vector, every module on its own (`collect_abs_tvecs`): the
    model treats `people.*` as functions of owner 0. -/
theorem C08_people_follow_sim :
    Gen.absTvecs = [("sim", "sim.t.abstvec"), ("people", "sim.t.abstvec"), ("sim.modules:mod.name", "mod.t.abstvec")] := by
  decide

/-- **Well-formed function list, for every module set**: orders are the positions, a clock-incrementing
    function is the last of its owner's functions, and every owner that has a function has one. -/
theorem C08_collect_wellformed (mods : List Mod) :
    let fl := collect Gen.loopRows mods
    Ordered fl fl.length ∧ FinishLast fl ∧
    (∀ f ∈ fl, ∃ fm ∈ fl, fm.clock = f.clock ∧ fm.finish = true) :=
  ⟨collect_ordered _ mods, collect_finishLast C08_table_finish_last mods,
   collect_everyOwnerFinishes C08_table_has_finish.1 C08_table_has_finish.2 mods⟩

/-! ### The plan -/

/-- What `make_plan` builds is a plan. -/
theorem C08_makePlan_isPlan (T : Times) (fl : List Func) : IsPlan T fl (makePlan T fl) := by
  refine ⟨List.mergeSort_perm _ _, ?_⟩
  have h := List.pairwise_mergeSort (le := keyLe)
    (fun a b c hab hbc => by simp only [keyLe, decide_eq_true_eq] at *; omega)
    (fun a b => by simp only [keyLe, Bool.or_eq_true, decide_eq_true_eq]; omega) (cross T fl)
  exact h.imp (fun h => by simpa [keyLe] using h)

/-- The kernel-reducible insertion sort builds a plan too (used for the `decide`d examples below). -/
theorem C08_makePlanI_isPlan (T : Times) (fl : List Func) : IsPlan T fl (makePlanI T fl) :=
  ⟨isort_perm _, isort_sorted _⟩

/-- **Exactly once.** A plan is a permutation of the cross product: it contains exactly the entries
    (function `f`, `k`-th point of the time vector of `f`'s owner), and each of them exactly once. -/
theorem C08_plan_perm {T : Times} {fl : List Func} {n : Nat} {p : List Entry} (hp : IsPlan T fl p)
    (hO : Ordered fl n) :
    p.Perm (cross T fl) ∧
    (∀ e, e ∈ p ↔ ∃ f ∈ fl, ∃ k, k < T.npts f.owner ∧
      e = ⟨T.tv f.owner k, f.order, f.owner, f.clock, f.finish, k, f.row⟩) ∧
    (∀ f ∈ fl, ∀ k, k < T.npts f.owner →
      p.count ⟨T.tv f.owner k, f.order, f.owner, f.clock, f.finish, k, f.row⟩ = 1) := by
  refine ⟨hp.1, fun e => ?_, fun f hf k hk => ?_⟩
  · rw [hp.1.mem_iff]; exact mem_cross
  · have hmem : (⟨T.tv f.owner k, f.order, f.owner, f.clock, f.finish, k, f.row⟩ : Entry) ∈ p :=
      hp.1.mem_iff.2 (mem_cross.2 ⟨f, hf, k, hk, rfl⟩)
    rw [(plan_nodup hp hO).count]; simp [hmem]

/-- **Non-decreasing simulation time**, for separated configurations. -/
theorem C08_plan_time_sorted {T : Times} {fl : List Func} {n : Nat} {p : List Entry} (hp : IsPlan T fl p)
    (hS : Separated T fl n) (hO : Ordered fl n) : p.Pairwise (fun a b => a.time ≤ b.time) := by
  refine hp.2.imp_of_mem ?_
  intro a b ha hb hle
  obtain ⟨f, hf, i, hi, rfl⟩ := mem_cross.1 (hp.1.subset ha)
  obtain ⟨g, hg, j, hj, rfl⟩ := mem_cross.1 (hp.1.subset hb)
  simp only [Entry.key] at hle ⊢
  rcases Int.lt_or_le (T.tv g.owner j) (T.tv f.owner i) with hlt | hge
  · have := hS g hg f hf j hj i hi hlt
    have := hO.2 g hg
    omega
  · exact hge

/-- **Within one instant, function (phase) order.** -/
theorem C08_plan_phase_sorted {T : Times} {fl : List Func} {n : Nat} {p : List Entry} (hp : IsPlan T fl p)
    (hS : Separated T fl n) (hO : Ordered fl n) (hM : T.StrictMono) :
    p.Pairwise (fun a b => a.time = b.time → a.order < b.order) := by
  refine (plan_strict hp hS hO hM).imp ?_
  intro a b hlt heq
  simp only [Entry.key] at hlt
  omega

/-- The plan of a separated configuration is unique: the result does not depend on the sorting algorithm. -/
theorem C08_plan_unique {T : Times} {fl : List Func} {n : Nat} {p q : List Entry} (hp : IsPlan T fl p)
    (hq : IsPlan T fl q) (hS : Separated T fl n) (hO : Ordered fl n) (hM : T.StrictMono) : p = q := by
  refine List.Perm.eq_of_pairwise (le := fun a b => a.key ≤ b.key) ?_ hp.2 hq.2 (hp.1.trans hq.1.symm)
  intro a b ha hb h1 h2
  exact key_inj hS hO hM (hp.1.subset ha) (hq.1.subset hb) (by omega)

/-- **Clock.** At the invocation of any function scheduled at the `k`-th point of its time vector, the clock it
    reads (`clock`: the module's own, the sim's for `sim.*` and `people.*`) reads `k` — so `owner.now` is the scheduled
    instant.  `Aligned`: each function is scheduled on a time vector equal to its clock owner's. -/
theorem C08_clock {T : Times} {fl : List Func} {n : Nat} {p : List Entry} (hp : IsPlan T fl p)
    (hS : Separated T fl n) (hO : Ordered fl n) (hM : T.StrictMono) (hF : FinishLast fl) (hA : Aligned T fl)
    (hE : ∀ f ∈ fl, ∃ fm ∈ fl, fm.clock = f.clock ∧ fm.finish = true) :
    ∀ ec ∈ trace [] p, ec.2 = ec.1.k := by
  rintro ⟨e, c⟩ hec
  obtain ⟨pre, post, hsplit, hc⟩ := trace_mem hec
  have hmem : e ∈ p := by rw [hsplit]; simp
  obtain ⟨f, hf, k, hk, rfl⟩ := mem_cross.1 (hp.1.subset hmem)
  obtain ⟨fm, hfm, how, hfin⟩ := hE f hf
  simp only at hc ⊢
  have h0 : getClk [] f.clock = 0 := by simp [getClk]
  rw [hc, h0, Nat.zero_add, countP_prefix (plan_strict hp hS hO hM) hsplit, hp.1.countP_eq, ← how,
    countP_cross_finish hF hfm hfin]
  obtain ⟨hAf1, hAf2⟩ := hA f hf
  obtain ⟨hAm1, hAm2⟩ := hA fm hfm
  have hN : T.npts fm.owner = T.npts f.owner := by rw [hAm1, hAf1, how]
  have htv : ∀ j, j < T.npts f.owner → T.tv fm.owner j = T.tv f.owner j := by
    intro j hj
    rw [hAm2 j (hN ▸ hj), hAf2 j hj, how]
  have hcong : (List.range (T.npts fm.owner)).countP
      (fun j => decide ((⟨T.tv fm.owner j, fm.order, fm.owner, fm.clock, fm.finish, j, fm.row⟩ : Entry).key <
        (⟨T.tv f.owner k, f.order, f.owner, fm.clock, f.finish, k, f.row⟩ : Entry).key)) =
      (List.range (T.npts fm.owner)).countP (fun j => decide (j < k)) := by
    apply List.countP_congr
    intro j hj
    have hj' : j < T.npts fm.owner := List.mem_range.1 hj
    have hjf : j < T.npts f.owner := hN ▸ hj'
    have hfo := hO.2 f hf
    have hfmo := hO.2 fm hfm
    have hmax := finish_order_max hO hF hf hfm how.symm hfin
    have hiff : T.tv fm.owner j + (fm.order : Int) < T.tv f.owner k + (f.order : Int) ↔ j < k := by
      have hjj := htv j hjf
      rcases Nat.lt_trichotomy j k with hlt | heq | hgt
      · have h1 := hM f.owner j k hlt hk
        have h2 := hS fm hfm f hf j hj' k hk (by omega)
        constructor
        · intro _; exact hlt
        · intro _; omega
      · subst heq
        constructor
        · intro h; omega
        · intro h; omega
      · have h1 := hM f.owner k j hgt hjf
        have h2 := hS f hf fm hfm k hk j hj' (by omega)
        constructor
        · intro h; omega
        · intro h; omega
    constructor
    · intro h; exact decide_eq_true (hiff.1 (of_decide_eq_true h))
    · intro h; exact decide_eq_true (hiff.2 (of_decide_eq_true h))
  rw [hcong, countP_lt_range]
  omega

/-- **Final clocks.** After the plan every clock equals the number of points of the time vector its `finish_step` is
    scheduled on (its own, when `Aligned`); after `Sim.run`'s adjustment it reads the final index `npts − 1`.
    (No separation needed.) -/
theorem C08_final_clocks {T : Times} {fl : List Func} {p : List Entry} (hp : IsPlan T fl p)
    (hF : FinishLast fl) {fm : Func} (hfm : fm ∈ fl) (hfin : fm.finish = true) :
    getClk (finalClocks [] p) fm.clock = T.npts fm.owner ∧
    afterRun (finalClocks [] p) fm.clock = (T.npts fm.owner : Int) - 1 := by
  have h : getClk (finalClocks [] p) fm.clock = T.npts fm.owner := by
    rw [finalClocks_eq, hp.1.countP_eq]
    have h0 : getClk [] fm.clock = 0 := by simp [getClk]
    rw [h0, Nat.zero_add]
    have := countP_cross_finish (T := T) hF hfm hfin (fun _ => true)
    simp only [Bool.and_true] at this
    rw [this]; simp
  exact ⟨h, by simp [afterRun, h]⟩

/-- **End to end**, for the code's own function table: for every module set with distinct names (none of them
    `sim` / `people`) and all strictly increasing, separated time vectors (the `people` entry holding the sim's), what
    `make_plan` builds is time-sorted, phase-sorted within an instant, executes every function with its clock at the
    scheduled index, and leaves every clock at its owner's number of points. -/
theorem C08_loop (mods : List Mod) (T : Times) (hN : NamesDistinct mods) (hM : T.StrictMono)
    (hP : T.npts (mods.length + 1) = T.npts 0 ∧ ∀ k, k < T.npts 0 → T.tv (mods.length + 1) k = T.tv 0 k)
    (hS : Separated T (collect Gen.loopRows mods) (collect Gen.loopRows mods).length) :
    let fl := collect Gen.loopRows mods
    let p := makePlan T fl
    p.Pairwise (fun a b => a.time ≤ b.time) ∧
    p.Pairwise (fun a b => a.time = b.time → a.order < b.order) ∧
    (∀ ec ∈ trace [] p, ec.2 = ec.1.k) ∧
    (∀ f ∈ fl, getClk (finalClocks [] p) f.clock = T.npts f.clock) := by
  intro fl p
  obtain ⟨hO, hF, hE⟩ := C08_collect_wellformed mods
  have hp := C08_makePlan_isPlan T fl
  have hA : Aligned T fl := collect_aligned hN T hP
  refine ⟨C08_plan_time_sorted hp hS hO, C08_plan_phase_sorted hp hS hO hM, C08_clock hp hS hO hM hF hA hE, ?_⟩
  intro f hf
  obtain ⟨fm, hfm, how, hfin⟩ := hE f hf
  rw [← how, (C08_final_clocks hp hF hfm hfin).1, (hA fm hfm).1]

/-- With distinct names every function of the code's table is scheduled on its own `abs_tvecs` entry
    (`people.*` on the `people` entry, reading the sim's clock). -/
theorem C08_names_partial (mods : List Mod) (hN : NamesDistinct mods) :
    ∀ f ∈ collect Gen.loopRows mods, f.owner = f.clock ∨ (f.owner = mods.length + 1 ∧ f.clock = 0) :=
  collect_sched hN

/-- The executable checks the driver evaluates on every correspondence case imply the hypotheses of the theorems. -/
theorem C08_checks_sound {T : Times} {fl : List Func} {n : Nat} :
    (separatedFast T fl n = true → Separated T fl n) ∧ (separatedB T fl n = true → Separated T fl n) ∧
    (∀ owners, strictMonoB T owners = true → ∀ m ∈ owners, ∀ i j, i < j → j < T.npts m → T.tv m i < T.tv m j) ∧
    (alignedB T fl = true → Aligned T fl) :=
  ⟨separatedFast_sound, separatedB_sound, fun _ h => strictMonoB_sound h, alignedB_sound⟩

/-! ### Calendar clocks in a year-unit sim: the time vectors are no longer only inputs (round 3)

`Model/LoopInstant.lean`: a date-based owner's time vector in a sim that runs in years is the image of the dates its
clock shows under `instEps` (`round_tvec(datetoyear(date)) − sim.yearvec[0]`, in eps).  The hypotheses `StrictMono` and
`Separated` of the theorems above are PROVED for such owners instead of being assumed of the code's vectors. -/

/-- The calendar-instant model counts in the code's `time_eps` (regenerated). -/
theorem C08_instant_unit_is_eps : Gen.timeEps * (perYear : Rat) = 1 := by decide +kernel

/-- **The own clock denotes the scheduled instant, injectively and monotonically.** For existing days of any years
    (ordinary, leap, century): a later date is scheduled at least 2732 eps (one day of a leap year) later — also
    from 31 December to 1 January and between years of different length —, so two clocks show the same date exactly
    when they are scheduled at the same instant, and an earlier instant is an earlier date. -/
theorem C08_calendar_instant (y0 : Int) {a b : Reading} (ha : a.Valid) (hb : b.Valid) :
    (a.lt b → instEps y0 a + 2732 ≤ instEps y0 b) ∧
    (instEps y0 a = instEps y0 b ↔ a = b) ∧
    (instEps y0 a < instEps y0 b ↔ a.lt b) := by
  refine ⟨fun h => instEps_gap y0 ha hb h, ⟨fun h => instEps_inj y0 ha hb h, fun h => by rw [h]⟩,
    ⟨fun h => lt_of_instEps_lt y0 ha hb h, fun h => ?_⟩⟩
  have := instEps_gap y0 ha hb h
  simp only [minGap] at this
  omega

/-- `round_tvec` never has to break a tie on a calendar instant: `doy0 / len · 10⁶` is never half-way between two
    integers (so nearest-integer rounding is independent of the tie rule, float or exact). Complete finite space. -/
theorem C08_no_rounding_ties : ∀ doy0, doy0 < 366 →
    (2 * doy0 * perYear + 365) % (2 * 365) ≠ 0 ∧ (2 * doy0 * perYear + 366) % (2 * 366) ≠ 0 := by
  decide +kernel

/-- The time vector built from increasing dates is strictly increasing with steps of at least `minGap`
    (`increasingB` is what the driver evaluates on every date-based owner of a correspondence case). -/
theorem C08_calendar_vector (y0 : Int) (rs : List Reading) (h : increasingB rs = true) :
    (instVec y0 rs).Pairwise (fun x y => x + (minGap : Int) ≤ y) :=
  instVec_pairwise y0 (increasingB_sound h).1 (increasingB_sound h).2

/-- **End to end on calendar clocks**: for every module set with distinct names and at most 2732 collected functions,
    whose owners' clocks all show increasing calendar dates `R m k` (the sim's and `people`'s the same ones) and whose
    time vectors are the instants of those dates: separation and monotonicity hold by the calendar, and the plan is
    time-sorted, phase-sorted within an instant — an instant being exactly one calendar date —, executed with every
    clock at its scheduled index, and leaves every clock at its number of points. -/
theorem C08_loop_calendar (mods : List Mod) (T : Times) (y0 : Int) (R : Nat → Nat → Reading)
    (hN : NamesDistinct mods) (hC : CalendarTimes T y0 R)
    (hP : T.npts (mods.length + 1) = T.npts 0 ∧ ∀ k, k < T.npts 0 → T.tv (mods.length + 1) k = T.tv 0 k)
    (hn : (collect Gen.loopRows mods).length ≤ minGap) :
    let fl := collect Gen.loopRows mods
    let p := makePlan T fl
    p.Pairwise (fun a b => a.time ≤ b.time) ∧
    p.Pairwise (fun a b => a.time = b.time → a.order < b.order) ∧
    (∀ ec ∈ trace [] p, ec.2 = ec.1.k) ∧
    (∀ f ∈ fl, getClk (finalClocks [] p) f.clock = T.npts f.clock) ∧
    (∀ a ∈ p, ∀ b ∈ p, (a.time = b.time ↔ R a.owner a.k = R b.owner b.k)) := by
  intro fl p
  have h := C08_loop mods T hN (calendar_strictMono hC) hP (calendar_separated hC _ hn)
  refine ⟨h.1, h.2.1, h.2.2.1, h.2.2.2, ?_⟩
  intro a ha b hb
  have hp := C08_makePlan_isPlan T fl
  obtain ⟨f, _, i, hi, rfl⟩ := mem_cross.1 (hp.1.subset ha)
  obtain ⟨g, _, j, hj, rfl⟩ := mem_cross.1 (hp.1.subset hb)
  obtain ⟨hvi, hti⟩ := hC.1 f.owner i hi
  obtain ⟨hvj, htj⟩ := hC.1 g.owner j hj
  simp only [hti, htj]
  exact (C08_calendar_instant y0 hvi hvj).2.1

/-- Non-vacuity: a yearly sim 2003–2005 (clock on 1 January; y0 = 2003·10⁶) with a daily intervention running from
    30 December 2004 (a leap year: day 364 of 366) to 2 January 2005, and `people`.  The hypotheses of
    `C08_loop_calendar` hold, and 31 December 2004 / 1 January 2005 are different instants 2732 eps apart. -/
def calMods : List Mod := [⟨.interventions, false, 2⟩]
def calReadings : List (List Reading) :=
  [[⟨2003, 0⟩, ⟨2004, 0⟩, ⟨2005, 0⟩], [⟨2004, 364⟩, ⟨2004, 365⟩, ⟨2005, 0⟩, ⟨2005, 1⟩], [⟨2003, 0⟩, ⟨2004, 0⟩, ⟨2005, 0⟩]]
def calR : Nat → Nat → Reading := fun m k => (calReadings.getD m []).getD k ⟨0, 0⟩
def calTimes : Times := Times.ofLists (calReadings.map (instVec 2003000000))

example : calReadings.map (instVec 2003000000) =
    [[0, 1000000, 2000000], [1994536, 1997268, 2000000, 2002740], [0, 1000000, 2000000]] := by decide
example : calReadings.all increasingB = true := by decide
example : CalendarTimes calTimes 2003000000 calR :=
  calendarTimes_ofLists 2003000000 calReadings (by decide)
/-- …and so do the conclusions (an instance of `C08_loop_calendar`). -/
example : (makePlan calTimes (collect Gen.loopRows calMods)).Pairwise (fun a b => a.time ≤ b.time) :=
  (C08_loop_calendar calMods calTimes 2003000000 calR (by unfold NamesDistinct; decide)
    (calendarTimes_ofLists 2003000000 calReadings (by decide)) (by decide) (by decide)).1
example : (collect Gen.loopRows calMods).length ≤ minGap := by decide

/-! ### The excluded point of `Separated` is real (known finding C08-tiebreak) -/

/-- Module set of the witness: one intervention (owner 1) in an otherwise empty sim (owner 0; `people` = owner 2). -/
def witnessMods : List Mod := [⟨.interventions, false, 2⟩]
/-- Sim `start=2000, dt=1` (points 0 and 10⁶ eps); the intervention starts 2·10⁻⁶ later (`start=2000.000002`). -/
def witnessTimes : Times := Times.ofLists [[0, 1000000], [2, 1000002], [0, 1000000]]

/-- **Tie-break counterexample.** With two owners 2 eps apart (and 9 functions) *no* key-sorted permutation of the
    cross product is in non-decreasing time order: `p.step` of the later owner (time 2, order 2, key 4) must run
    before `sim.finish_step` (time 0, order 8).  The configuration is not `Separated`. -/
theorem C08_tiebreak_counterexample :
    (∀ p, IsPlan witnessTimes (collect Gen.loopRows witnessMods) p →
      ¬ p.Pairwise (fun a b => a.time ≤ b.time)) ∧
    separatedB witnessTimes (collect Gen.loopRows witnessMods)
      (collect Gen.loopRows witnessMods).length = false := by
  refine ⟨?_, by decide⟩
  intro p hp hsorted
  have ha : (⟨2, 2, 1, 1, false, 0, 6⟩ : Entry) ∈ p :=
    hp.1.mem_iff.2 (mem_cross.2 ⟨⟨1, 1, false, 2, 6⟩, by decide, 0, by decide, by decide⟩)
  have hb : (⟨0, 8, 0, 0, true, 0, 14⟩ : Entry) ∈ p :=
    hp.1.mem_iff.2 (mem_cross.2 ⟨⟨0, 0, true, 8, 14⟩, by decide, 0, by decide, by decide⟩)
  rcases pairwise_trichotomy (hp.2.and hsorted) _ ha _ hb with h | h | h
  · exact absurd h (by decide)
  · exact absurd h.2 (by decide)
  · exact absurd h.1 (by decide)

/-- …and the executed times really interleave (in eps): the real code executes exactly this order
    (`sim.start_step@0, p.start_step@2e-6, people.step_die@0, p.step@2e-6, people.update_results@0, …`). -/
theorem C08_tiebreak_times :
    ((makePlanI witnessTimes (collect Gen.loopRows witnessMods)).map (·.time)).take 9 =
      [0, 2, 0, 2, 0, 2, 0, 2, 0] := by decide

/-! ### Colliding module names (known finding C08-name-collision) -/

/-- An intervention and an analyzer with ONE name (`nameId 2`): the intervention has 5 own time points, the analyzer 3. -/
def collideMods : List Mod := [⟨.interventions, false, 2⟩, ⟨.analyzers, false, 2⟩]
def collideTimes : Times :=
  Times.ofLists [[0, 1000000, 2000000], [0, 500000, 1000000, 1500000, 2000000], [0, 1000000, 2000000],
    [0, 1000000, 2000000]]

/-- **Name-collision counterexample.** Both modules are scheduled on the analyzer's entry (written last by
    `collect_abs_tvecs`): the intervention's functions run 3 times instead of once per each of its 5 time points —
    its clock ends at 3, not 5 — although the configuration is `Separated`.  `NamesDistinct` fails. -/
theorem C08_name_collision_counterexample :
    getClk (finalClocks [] (makePlanI collideTimes (collect Gen.loopRows collideMods))) 1 = 3 ∧
    collideTimes.npts 1 = 5 ∧
    (∀ f ∈ collect Gen.loopRows collideMods, f.clock = 1 → f.owner = 2) ∧
    alignedB collideTimes (collect Gen.loopRows collideMods) = false ∧
    separatedB collideTimes (collect Gen.loopRows collideMods) (collect Gen.loopRows collideMods).length = true := by
  decide

/-- A module named `people` captures the `people` entry: `people.step_die` etc. follow that module's time vector. -/
theorem C08_people_name_counterexample :
    ∀ f ∈ collect Gen.loopRows [⟨.interventions, false, 1⟩], f.row = 8 → f.owner = 1 ∧ f.clock = 0 := by decide

/-! ### Non-vacuity: concrete, non-trivial configurations meet the hypotheses -/

/-- A mixed-timestep configuration: sim yearly (3 points), a disease twice per year, a network, an
    intervention starting one year late, an analyzer ending beyond the sim's last point; `people` = owner 6. -/
def exampleMods : List Mod :=
  [⟨.demographics, false, 2⟩, ⟨.networks, false, 3⟩, ⟨.diseases, true, 4⟩, ⟨.interventions, false, 5⟩,
   ⟨.analyzers, false, 6⟩]
def exampleTimes : Times :=
  Times.ofLists [[0, 1000000, 2000000], [0, 1000000, 2000000], [0, 1000000, 2000000],
    [0, 500000, 1000000, 1500000, 2000000], [1000000, 2000000], [0, 2000000, 4000000], [0, 1000000, 2000000]]

example : (exampleMods.map (·.nameId)).Pairwise (· ≠ ·) ∧ ∀ m ∈ exampleMods, 2 ≤ m.nameId := by decide
example : separatedB exampleTimes (collect Gen.loopRows exampleMods)
    (collect Gen.loopRows exampleMods).length = true := by decide
example : strictMonoB exampleTimes [0, 1, 2, 3, 4, 5, 6] = true := by decide
example : alignedB exampleTimes (collect Gen.loopRows exampleMods) = true := by decide
example : (collect Gen.loopRows exampleMods).length = 26 := by decide
example : (makePlanI exampleTimes (collect Gen.loopRows exampleMods)).length = 84 := by decide
/-- the clocks observed along the example's plan are the scheduled indices (a test of one instance; the theorem
    `C08_clock` covers all) -/
example : (trace [] (makePlanI exampleTimes (collect Gen.loopRows exampleMods))).all
    (fun ec => ec.2 == ec.1.k) = true := by decide
example : finalClocks [] (makePlanI exampleTimes (collect Gen.loopRows exampleMods)) = [3, 3, 3, 5, 2, 3] := by decide

end StarsimModel.C08
