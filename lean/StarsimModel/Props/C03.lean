/-
C03 — An agent's draw depends only on seed, distribution, time and slot.

Model: Model/Slots.lean (slot indexing, filter, pairwise combination, abstract slot-keyed epidemic) and
Model/Rng.lean (where in the stream a call starts).  Streams are uninterpreted.
-/
import StarsimModel.Model.Slots
import StarsimModel.Props.C04
import StarsimModel.Lemmas.Grow
import StarsimModel.Generated.GrowOps
import StarsimModel.Lemmas.History
import StarsimModel.Generated.HistoryWriters
import StarsimModel.Lemmas.Link
import StarsimModel.Generated.DistLink

namespace StarsimModel.C03
open StarsimModel.Slots StarsimModel.Rng

/-! ### Slot indexing -/

theorem foldl_max_ge (l : List Nat) : ∀ a, a ≤ l.foldl max a := by
  induction l with
  | nil => intro a; simp
  | cons x xs ih => intro a; simp only [List.foldl_cons]; exact Nat.le_trans (Nat.le_max_left a x) (ih _)

theorem foldl_max_mem (l : List Nat) : ∀ a, ∀ x ∈ l, x ≤ l.foldl max a := by
  induction l with
  | nil => intro a x hx; cases hx
  | cons y ys ih =>
      intro a x hx
      simp only [List.foldl_cons]
      rcases List.mem_cons.mp hx with rfl | h
      · exact Nat.le_trans (Nat.le_max_right a x) (foldl_max_ge ys _)
      · exact ih _ x h

/-- every requested slot is below the requested size -/
theorem lt_reqSize (slots : List Nat) : ∀ s ∈ slots, s < reqSize slots := by
  intro s hs
  cases slots with
  | nil => cases hs
  | cons a rest =>
      simp only [reqSize]
      rcases List.mem_cons.mp hs with rfl | h
      · exact Nat.lt_succ_of_le (foldl_max_ge rest _)
      · exact Nat.lt_succ_of_le (foldl_max_mem rest _ s h)

/-- **Refinement.** The code's "draw `max slot + 1` variates, then index by slot" returns, for every slot list
    (repeats, any order, empty), exactly variate number `slot` for each requested agent. -/
theorem C03_rvs_refines {α} (stream : Nat → α) (slots : List Nat) :
    rvsCode stream slots = rvsSpec stream slots := by
  unfold rvsCode rvsSpec
  apply List.map_congr_left
  intro s hs
  have h := lt_reqSize slots s hs
  simp [h]

/-- The value returned at request position `i` depends only on the slot at that position: not on the other
    requested agents, their order, their number or the largest slot (population size). -/
theorem C03_popsize_indep {α} (stream : Nat → α) (slots slots' : List Nat) (i j : Nat)
    (h : slots[i]? = slots'[j]?) :
    (rvsCode stream slots)[i]? = (rvsCode stream slots')[j]? := by
  rw [C03_rvs_refines, C03_rvs_refines]
  simp [rvsSpec, h]

/-- An agent present in two requests gets the same value in both. -/
theorem C03_subset {α} (stream : Nat → α) (slots slots' : List Nat) (s : Nat)
    (i j : Nat) (hi : slots[i]? = some s) (hj : slots'[j]? = some s) :
    (rvsCode stream slots)[i]? = some (some (stream s)) ∧ (rvsCode stream slots')[j]? = some (some (stream s)) := by
  rw [C03_rvs_refines, C03_rvs_refines]
  simp [rvsSpec, hi, hj]

/-- Permuting the request permutes the answer. -/
theorem C03_perm {α} (stream : Nat → α) (slots slots' : List Nat) (h : slots.Perm slots') :
    (rvsCode stream slots).Perm (rvsCode stream slots') := by
  rw [C03_rvs_refines, C03_rvs_refines]
  exact h.map _

/-- Dynamic (per-agent) parameters: agent `i` gets `ppf pars[i] (u slots[i])` — a function of its own
    parameter and its own slot only. -/
theorem C03_dynamic_refines {α β π} (u : Nat → α) (ppf : π → α → β) (pars : List π) (slots : List Nat) :
    rvsDyn u ppf pars slots = List.zipWith (fun par s => some (ppf par (u s))) pars slots := by
  unfold rvsDyn
  rw [C03_rvs_refines]
  unfold rvsSpec
  rw [List.zipWith_map_right]
  rfl

theorem filterMap_zip_map {α β γ} (l : List α) (f : α → β) (g : α × β → Option γ) :
    (l.zip (l.map f)).filterMap g = l.filterMap (fun a => g (a, f a)) := by
  induction l with
  | nil => rfl
  | cons a l ih => simp [List.filterMap_cons, ih]

theorem filterMap_ite {α β} (l : List α) (P : α → Prop) [DecidablePred P] (f : α → β) :
    l.filterMap (fun a => if P a then some (f a) else none) = (l.filter (fun a => decide (P a))).map f := by
  induction l with
  | nil => rfl
  | cons a l ih =>
      by_cases h : P a <;> simp [h, ih]

theorem rat_lt_of_lt_of_le {a b c : Rat} (h1 : a < b) (h2 : b ≤ c) : a < c := by
  apply Decidable.byContradiction
  intro hc
  exact (Rat.not_lt.mpr (Rat.le_trans h2 (Rat.not_lt.mp hc))) h1

/-- `filter` returns exactly the requested uids whose own draw is below their own probability, in request order. -/
theorem C03_filter_sound (u : Nat → Rat) (req : List (Nat × Nat × Rat)) :
    filterCode u req = (req.filter (fun e => decide (u e.2.1 < e.2.2))).map (·.1) := by
  unfold filterCode
  rw [C03_rvs_refines]
  unfold rvsSpec
  simp only [List.map_map]
  rw [filterMap_zip_map]
  simp only [Function.comp]
  exact filterMap_ite req (fun e => u e.2.1 < e.2.2) (·.1)

/-- Bernoulli selection under fixed draws is monotone in `p` (used by C05 too). -/
theorem C03_filter_mono (u : Nat → Rat) (req req' : List (Nat × Nat × Rat))
    (hsame : req.map (fun e => (e.1, e.2.1)) = req'.map (fun e => (e.1, e.2.1)))
    (hle : ∀ (i : Nat) (e e' : Nat × Nat × Rat), req[i]? = some e → req'[i]? = some e' → e.2.2 ≤ e'.2.2) :
    ∀ x ∈ filterCode u req, x ∈ filterCode u req' := by
  rw [C03_filter_sound, C03_filter_sound]
  intro x hx
  simp only [List.mem_map, List.mem_filter, decide_eq_true_eq] at hx ⊢
  obtain ⟨e, ⟨hmem, hlt⟩, rfl⟩ := hx
  obtain ⟨i, hi⟩ := List.getElem?_of_mem hmem
  have hlen : req.length = req'.length := by
    have := congrArg List.length hsame; simpa using this
  have hi' : i < req'.length := by
    have : i < req.length := (List.getElem?_eq_some_iff.mp hi).1
    omega
  have hge : req'[i]? = some req'[i] := List.getElem?_eq_getElem hi'
  have hk := congrArg (fun l => l[i]?) hsame
  simp only [List.getElem?_map, hi, hge, Option.map_some, Option.some.injEq, Prod.mk.injEq] at hk
  refine ⟨req'[i], ⟨List.getElem_mem hi', ?_⟩, hk.1.symm⟩
  have := hle i e req'[i] hi hge
  rw [← hk.2]
  exact rat_lt_of_lt_of_le hlt this

/-- **Pairwise draws.** The number attached to an edge depends only on the two agents' slots (through their
    own variates), not on the other edges of the call. -/
theorem C03_pairwise (uS uT : Nat → Nat) (slotsS slotsT : List Nat) (i s t : Nat)
    (hs : slotsS[i]? = some s) (ht : slotsT[i]? = some t) :
    (multiRvs uS uT slotsS slotsT)[i]? = some (some (combineBits (uS s) (uT t))) := by
  unfold multiRvs
  rw [C03_rvs_refines, C03_rvs_refines]
  simp [rvsSpec, List.getElem?_zipWith, hs, ht]

/-! ### Where in the stream a call starts: independent of the earlier history -/

theorem jumpTo_flags (d : Dist) (j : Int) (f : Bool) :
    (jumpTo d j f).1.initialized = d.initialized ∧ (jumpTo d j f).1.auto = d.auto ∧ (jumpTo d j f).1.strict = d.strict := by
  unfold jumpTo
  split
  · simp
  · split <;> simp [doJump]

/-- Loop operations keep a distribution initialised and keep its `auto` flag. -/
theorem step_loop_flags (d : Dist) (op : Op) (hop : op.loopOp = true) :
    (step d op).1.initialized = d.initialized ∧ (step d op).1.auto = d.auto ∧ (step d op).1.strict = d.strict := by
  cases op with
  | init o s f => simp [Op.loopOp] at hop
  | reset k => simp [Op.loopOp] at hop
  | jump to delta force => exact jumpTo_flags d _ force
  | jumpDt ti force => exact jumpTo_flags d _ force
  | rvs size rs =>
      simp only [Op.loopOp, Bool.not_eq_eq_eq_not, Bool.not_true] at hop
      subst hop
      simp only [step]
      by_cases h1 : d.initialized <;> by_cases hr : d.ready <;> by_cases hs : d.strict <;>
        by_cases h3 : size = 0 <;> by_cases h4 : d.auto <;>
        simp [h1, hr, hs, h3, h4, doJump]
  | direct size =>
      simp only [step]
      by_cases h1 : d.initialized <;> by_cases h3 : size = 0 <;> simp [h1, h3]
  | setPars => simp [step]

theorem run_loop_flags (ops : List Op) : ∀ (d : Dist), (∀ op ∈ ops, op.loopOp = true) →
    (run d ops).1.initialized = d.initialized ∧ (run d ops).1.auto = d.auto := by
  induction ops with
  | nil => intro d _; simp [run]
  | cons op ops ih =>
      intro d hops
      have hop := hops op (List.mem_cons_self ..)
      have hrest : ∀ o ∈ ops, o.loopOp = true := fun o ho => hops o (List.mem_cons_of_mem _ ho)
      obtain ⟨h1, h2, _⟩ := step_loop_flags d op hop
      obtain ⟨i1, i2⟩ := ih (step d op).1 hrest
      have hfst : (run d (op :: ops)).1 = (run (step d op).1 ops).1 := by
        simp only [run]; split <;> rfl
      rw [hfst, i1, i2, h1, h2]; exact ⟨rfl, rfl⟩

/-- **History independence.** Take any earlier history of loop operations `h` on an initialised auto-advancing
    distribution.  Once `jump_dt(ti)` succeeds, the `k`-th non-empty draw of the step starts at jump index
    `stride*ti + k` with nothing drawn since the jump — whatever `h` was (how many calls, how much was drawn). -/
theorem C03_history_indep (d : Dist) (h : List Op) (hh : ∀ op ∈ h, op.loopOp = true)
    (hi : d.initialized = true) (ha : d.auto = true) (ti : Int)
    (hlt : (run d h).1.ind < (Gen.dtJumpSize : Int) * ti)
    (sizes : List Nat) (hs : ∀ n ∈ sizes, n ≠ 0) :
    (run (step (run d h).1 (.jumpDt ti false)).1 (sizes.map (fun n => Op.rvs n false))).2 =
      (List.range sizes.length).map (fun (k : Nat) => (⟨(Gen.dtJumpSize : Int) * ti + (k : Int), []⟩ : Pos)) := by
  obtain ⟨hi', ha'⟩ := run_loop_flags h d hh
  have hinit : (run d h).1.initialized = true := by rw [hi', hi]
  have hauto : (run d h).1.auto = true := by rw [ha', ha]
  obtain ⟨hpos, hind, hready, _⟩ := C04.C04_jumpDt_lands (run d h).1 ti hinit hlt
  have hflags := step_loop_flags (run d h).1 (.jumpDt ti false) (by simp [Op.loopOp])
  exact C04.C04_formula sizes hs _ _ (by rw [hflags.1, hinit]) (by rw [hflags.2.1, hauto]) hready hpos hind

/-- Two different histories: the same agent gets the same variate (same seed, same position, same slot). -/
theorem C03_draw_indep_of_history {α} (stream : Nat → Pos → Nat → α)
    (d₁ d₂ : Dist) (h₁ h₂ : List Op) (hh₁ : ∀ op ∈ h₁, op.loopOp = true) (hh₂ : ∀ op ∈ h₂, op.loopOp = true)
    (hi₁ : d₁.initialized = true) (ha₁ : d₁.auto = true) (hi₂ : d₂.initialized = true) (ha₂ : d₂.auto = true)
    (ti : Int) (hlt₁ : (run d₁ h₁).1.ind < (Gen.dtJumpSize : Int) * ti)
    (hlt₂ : (run d₂ h₂).1.ind < (Gen.dtJumpSize : Int) * ti)
    (sizes₁ sizes₂ : List Nat) (hs₁ : ∀ n ∈ sizes₁, n ≠ 0) (hs₂ : ∀ n ∈ sizes₂, n ≠ 0)
    (k : Nat) (hk₁ : k < sizes₁.length) (hk₂ : k < sizes₂.length) (hseed : d₁.seed = d₂.seed) (slot : Nat) :
    ((run (step (run d₁ h₁).1 (.jumpDt ti false)).1 (sizes₁.map (fun n => Op.rvs n false))).2[k]?).map
        (fun p => stream d₁.seed p slot) =
    ((run (step (run d₂ h₂).1 (.jumpDt ti false)).1 (sizes₂.map (fun n => Op.rvs n false))).2[k]?).map
        (fun p => stream d₂.seed p slot) := by
  rw [C03_history_indep d₁ h₁ hh₁ hi₁ ha₁ ti hlt₁ sizes₁ hs₁, C03_history_indep d₂ h₂ hh₂ hi₂ ha₂ ti hlt₂ sizes₂ hs₂]
  simp [hk₁, hk₂, hseed]

/-! ### Sim level: extending the population by agents who cannot transmit -/

theorem getsInfected_extension (w : World) (t : Nat) (st : EpiState) (pop extras : List Nat) (b : Nat)
    (hex : ∀ e ∈ extras, w.relTrans e = 0) (hdraw : ∀ t a b, 0 ≤ w.transDraw t a b) :
    getsInfected w t st (pop ++ extras) b = getsInfected w t st pop b := by
  unfold getsInfected
  congr 1
  rw [List.any_append]
  have : extras.any (fun a =>
      st.inf a && decide (a ≠ b) && decide (w.edgeDraw t (min a b) (max a b) ≤ w.pEdge)
        && decide (w.transDraw t a b < w.beta * w.relTrans a * w.relSus b)) = false := by
    rw [List.any_eq_false]
    intro a ha
    have h0 : w.beta * w.relTrans a * w.relSus b = 0 := by
      rw [hex a ha]; simp [Rat.mul_zero, Rat.zero_mul]
    have : ¬ (w.transDraw t a b < w.beta * w.relTrans a * w.relSus b) := by
      rw [h0]; exact Rat.not_lt.mpr (hdraw t a b)
    simp [this]
  rw [this, Bool.or_false]

/-- **Extension invariance.** On a slot-keyed network with slot-keyed pairwise draws, adding agents who can
    never transmit leaves the whole state trajectory — hence every original agent's infection history —
    unchanged, for every number of steps. -/
theorem C03_extension_invariance (w : World) (pop extras : List Nat) (st : EpiState)
    (hex : ∀ e ∈ extras, w.relTrans e = 0) (hdraw : ∀ t a b, 0 ≤ w.transDraw t a b) (n : Nat) :
    epiRun w (pop ++ extras) st n = epiRun w pop st n := by
  induction n with
  | zero => rfl
  | succ n ih =>
      simp only [epiRun, ih]
      unfold epiStep
      simp only [getsInfected_extension w n _ pop extras _ hex hdraw]

/-! ### Newborns: the slot is in place before any state default is drawn (`People.grow`, Model/Grow.lean) -/

open StarsimModel.Grow in
/-- The statements of `People.grow` (REGENERATED from the source on every run) write the requested slots before they
    grow the states, once each. -/
theorem C03_grow_slots_before_defaults : slotsBeforeDefaults Gen.growOps = true := by decide

open StarsimModel.Grow in
/-- **A newborn's random state default depends only on its slot.** For every population (any number of agents created
    before, any slots), every list of requested slots and every stream, after `People.grow` as the source has it the new
    agents hold exactly the requested slots and a state whose default is a draw gives each new agent the stream value of ITS
    slot — whatever its uid is, i.e. however many agents were created before it. -/
theorem C03_newborn_default_by_slot (stream : Nat → Nat) (p0 : P) (newSlots : List Nat) :
    (grow Gen.growOps stream p0 newSlots).slots = p0.slots ++ newSlots ∧
    (grow Gen.growOps stream p0 newSlots).vals = p0.vals ++ newSlots.map stream :=
  grow_by_slot Gen.growOps C03_grow_slots_before_defaults stream p0 newSlots

open StarsimModel.Grow in
/-- two worlds that differ in how many agents exist: the same requested slots give the same defaults -/
theorem C03_newborn_default_world_independent (stream : Nat → Nat) (p0 p0' : P) (newSlots : List Nat) :
    (grow Gen.growOps stream p0 newSlots).vals.drop p0.vals.length =
    (grow Gen.growOps stream p0' newSlots).vals.drop p0'.vals.length := by
  rw [(C03_newborn_default_by_slot stream p0 newSlots).2, (C03_newborn_default_by_slot stream p0' newSlots).2]
  simp

open StarsimModel.Grow in
/-- the order matters: drawing the defaults before the requested slots are written keys them by uid -/
theorem C03_grow_order_counterexample :
    slotsBeforeDefaults [.uidGrow, .slotGrowDefault, .parentGrow, .statesGrow, .slotWrite, .auids] = false ∧
    (grow [.uidGrow, .slotGrowDefault, .parentGrow, .statesGrow, .slotWrite, .auids] (fun s => 100 + s) ⟨[0, 1, 2], [7, 7, 7]⟩ [9]).vals = [7, 7, 7, 103] ∧
    (grow [.uidGrow, .slotGrowDefault, .parentGrow, .statesGrow, .slotWrite, .auids] (fun s => 100 + s) ⟨[0, 1], [7, 7]⟩ [9]).vals = [7, 7, 102] := by
  decide

/-! ### Non-vacuity -/


/-! ### The saved generator states (`Dist.history`): an absolute jump needs saved state 0 to stay the initial state
    (Model/History.lean) -/

open StarsimModel.Hist in
/-- The statements of the whole package that write a `history` attribute (REGENERATED from the source on every run) are the
    ones the model accounts for: emptied only while a distribution is built / initialised, appended to by `make_history`,
    dropped by the post-run `Sim.shrink`.  Nothing trims, pops, slices, rebinds or aliases the list. -/
theorem C03_history_writers_modelled : Gen.historyWriters.all Site.modelled = true := by decide

open StarsimModel.Hist in
/-- `Dist.jump` resets to saved state 0 (REGENERATED: `reset(state=0)`, `jump` calls `reset()` with no argument). -/
theorem C03_jump_resets_to_first_saved : Gen.jumpResetsToSaved = 0 := by decide

open StarsimModel.Hist in
/-- **Saved state 0 is the initial state for ever**: after initialisation, under every sequence of calls (any sizes),
    resets (any index) and jumps, of any length. -/
theorem C03_history_head_invariant {σ : Type} (adv jumped : σ → Nat → σ) (s0 : σ) (ops : List Hist.Op)
    (hops : ∀ op ∈ ops, op.inCode = true) :
    (Hist.run adv jumped (Hist.init s0) ops).hist[0]? = some s0 :=
  run_head adv jumped ops (Hist.init s0) s0 hops (by simp [Hist.init])

open StarsimModel.Hist in
/-- **Where a timestep's stream starts does not depend on how much was drawn before**: after ANY earlier sequence of calls,
    resets and jumps (any number of calls: one, a thousand and one, a million), a jump to `j` leaves the generator at
    `jumped s0 j` -- the state a freshly initialised distribution jumped straight to `j` has. -/
theorem C03_jump_indep_of_saved_history {σ : Type} (adv jumped : σ → Nat → σ) (s0 : σ) (ops : List Hist.Op) (j : Nat)
    (hops : ∀ op ∈ ops, op.inCode = true) :
    (Hist.run adv jumped (Hist.init s0) (ops ++ [.jump j])).cur = jumped s0 j
    ∧ (Hist.run adv jumped (Hist.init s0) (ops ++ [.jump j])).cur = (Hist.run adv jumped (Hist.init s0) [.jump j]).cur := by
  have h := C03_history_head_invariant adv jumped s0 ops hops
  have e : (Hist.run adv jumped (Hist.init s0) (ops ++ [.jump j])).cur = jumped s0 j := by
    rw [run_append]
    have e1 : Hist.run adv jumped (Hist.run adv jumped (Hist.init s0) ops) [.jump j]
        = Hist.step adv jumped (Hist.run adv jumped (Hist.init s0) ops) (.jump j) := rfl
    rw [e1]; simp only [Hist.step, h]
  exact ⟨e, by rw [e]; simp [Hist.run, Hist.step, Hist.init]⟩

open StarsimModel.Hist in
/-- Two arbitrary earlier histories give the same stream start at the same target. -/
theorem C03_jump_same_for_all_histories {σ : Type} (adv jumped : σ → Nat → σ) (s0 : σ) (ops ops' : List Hist.Op) (j : Nat)
    (hops : ∀ op ∈ ops, op.inCode = true) (hops' : ∀ op ∈ ops', op.inCode = true) :
    (Hist.run adv jumped (Hist.init s0) (ops ++ [.jump j])).cur = (Hist.run adv jumped (Hist.init s0) (ops' ++ [.jump j])).cur := by
  rw [(C03_jump_indep_of_saved_history adv jumped s0 ops j hops).1, (C03_jump_indep_of_saved_history adv jumped s0 ops' j hops').1]

open StarsimModel.Hist in
/-- The invariant is needed: a writer that keeps only the most recent saved states (an operation the code does NOT have)
    makes the stream start depend on the number of earlier calls. -/
theorem C03_history_trim_counterexample :
    (Hist.run advP jumpedP (Hist.init (0, [])) [.call 3, .call 1, .trim 1, .jump 5]).cur ≠ jumpedP (0, []) 5
    ∧ (Hist.run advP jumpedP (Hist.init (0, [])) [.call 3, .trim 1, .jump 5]).cur
        ≠ (Hist.run advP jumpedP (Hist.init (0, [])) [.call 3, .call 1, .trim 1, .jump 5]).cur := by decide

/-! ### Which generator object a draw reads (Model/Link.lean): the object's lifecycle does not matter -/

open StarsimModel.Link in
/-- The statements of `Dist.init` / `Dist.process_dist` that touch the Dist's generator or the SciPy sampler's random state
    (REGENERATED from the source on every run) end with the sampler linked to the generator just created, whatever the object
    went through before; and nothing else in starsim/distributions.py rebinds either reference. -/
theorem C03_init_links_sampler : endsLinked Gen.distInitProg = true ∧ Gen.otherRngWriters = [] := by decide

open StarsimModel.Link in
/-- **The sampler always reads the Dist's own current generator**: for every statement list accepted by `endsLinked`, from every
    state of the object (fresh, self-initialised by strict=False, already initialised, stale), after one initialisation followed
    by ANY sequence of further initialisations and calls.  So `reset` / `jump`, which act on `self.rng`, govern every draw. -/
theorem C03_sampler_reads_own_generator (prog : List Stmt) (hp : endsLinked prog = true) (d : D) (ops : List Link.Op) :
    (Link.run prog d (.init :: ops)).link = (Link.run prog d (.init :: ops)).rng := by
  have h := run_ok prog hp ops (initOnce prog d) (initOnce_ok prog hp d)
  simpa [Link.run, Link.step, D.ok] using h

open StarsimModel.Link in
/-- … for the code as it is today. -/
theorem C03_sampler_reads_own_generator_code (d : D) (ops : List Link.Op) :
    (Link.run Gen.distInitProg d (.init :: ops)).link = (Link.run Gen.distInitProg d (.init :: ops)).rng :=
  C03_sampler_reads_own_generator _ C03_init_links_sampler.1 d ops

open StarsimModel.Link in
/-- The criterion is needed: linking "only once" (an arrangement the code does NOT have) leaves a re-initialised distribution
    drawing from the generator of its first initialisation, which `reset` / `jump` no longer reach; so does freezing the sampler
    after the link. -/
theorem C03_link_once_counterexample :
    (Link.run [.newRng, .newSampler, .link .firstInitOnly] fresh [.init, .sample, .init]).link
      ≠ (Link.run [.newRng, .newSampler, .link .firstInitOnly] fresh [.init, .sample, .init]).rng
    ∧ (Link.run [.newRng, .link .always, .newSampler] fresh [.init]).link ≠ (Link.run [.newRng, .link .always, .newSampler] fresh [.init]).rng := by
  decide

open StarsimModel.Link in
example : Link.run Gen.distInitProg fresh [.init, .sample, .init, .init, .sample] = ⟨3, 3, 3, true⟩ := by decide
open StarsimModel.Link in
example : endsLinked [.newRng, .newSampler, .link .always, .link .firstInitOnly] = true ∧ endsLinked [.newRng, .link .firstInitOnly] = false := by decide

open StarsimModel.Hist in
example : (Hist.run advP jumpedP (Hist.init (0, [])) [.call 3, .jump 2, .call 1, .call 4, .reset 1, .jump 7]).cur = (7, [])
    ∧ (Hist.run advP jumpedP (Hist.init (0, [])) [.call 3, .jump 2, .call 1, .call 4, .reset 1, .jump 7]).hist
        = [(0, []), (0, []), (2, []), (2, [1])] := by decide
open StarsimModel.Hist in
example : ∀ op ∈ [Hist.Op.call 3, .jump 2, .call 1, .reset 1], op.inCode = true := by decide

open StarsimModel.Grow in
example : (grow Gen.growOps (fun s => 100 + s) ⟨[0, 1, 2], [7, 7, 7]⟩ [9, 4]).vals = [7, 7, 7, 109, 104] := by decide

example : rvsCode (fun i => 10 * i) [3, 0, 3, 7] = [some 30, some 0, some 30, some 70] := by decide
example : reqSize [3, 0, 3, 7] = 8 ∧ reqSize [] = 0 := by decide
example : filterCode (fun i => (i : Rat) / 10) [(100, 2, 1/2), (101, 7, 1/2), (102, 2, 1/10)] = [100] := by decide +kernel
example : combineBits 3 5 = Nat.xor 15 (2 ^ 32 - 2) := by decide

end StarsimModel.C03
