/-
C14 — Contact networks reference only live agents and honour their rules.

Property theorems and non-vacuity examples only (helper lemmas: Lemmas/Network.lean, Lemmas/NetworkMore.lean).
Model: Model/Network.lean.  `Generated/NetworkFacts.lean` is regenerated from /repo/starsim/networks.py and
people.py on every run; `C14_source_filters` fails to elaborate when one of the filter expressions the theorems
rest on changes.

A history is any list of `Op`s (births, deaths, removal of the dead, ageing, network steps with ARBITRARY random
choices of the right shape, maternal additions/expiries); `World.run` is `.ok` exactly when every supplied choice
has the shape the sampler guarantees.
-/
import StarsimModel.Lemmas.NetworkMore
import StarsimModel.Generated.NetworkFacts

namespace StarsimModel.C14
open StarsimModel.Network

/-- The filter expressions of the source that the model's `endPairs`, `matEndPairs`, `matStep`, `active`,
    `available`, `removeUids` and RandomNet's `born` transcribe.  (Obligation on the regenerated file.) -/
theorem C14_source_filters :
    Gen.endPairsKeep = ["alive[p1]", "alive[p2]", "dur>0"] ∧ Gen.endPairsDur = "dur-dt" ∧
    Gen.matEndPairsKeep = ["alive[p1]", "alive[p2]", "end>ti"] ∧ Gen.matStepZero = "end<=ti" ∧
    Gen.activeConj = ["age>debut", "alive", "participant"] ∧
    Gen.availableBase = ["active(people)", "people[sex]"] ∧ Gen.availableExcluded = ["p1", "p2"] ∧
    Gen.removeUidsKeep = "~(np.isin(p1,uids)|np.isin(p2,uids))" ∧ Gen.randomBorn = ["age>0", "alive"] ∧
    Gen.removeDeadTellsNetworks = true ∧ Gen.removeDeadUids = "dead.uids" := by decide

/-- the variant of a class as the source is today -/
def currentVariant : Kind → Variant
  | .erdos => if Gen.erdosUsesPositions then .asis else .spec
  | .disk => if Gen.diskUsesPositions then .asis else .spec
  | .randomPlain => if Gen.randomPlainCountsAllPeople then .asis else .spec
  | _ => .spec

/-- The source as it is now builds ErdosRenyiNet and DiskNet endpoints from identifiers (repaired in /repo commit
    d09c6aa), so the full `spec` theorems below are the ones that apply to those classes.  (Obligation on the
    regenerated file: it stops elaborating if positions come back.) -/
theorem C14_source_endpoints_by_uid : currentVariant .erdos = .spec ∧ currentVariant .disk = .spec := by decide

/-! ### Equal column lengths -/

/-- A freshly initialised network of any class satisfies the invariant. -/
theorem C14_init_good {n : Nat} {f : Nat → Bool} {a : Nat → Rat} {k : Kind} {v : Variant} {c : Choice} {w : World}
    (h : World.init n f a k v c = .ok w) : Good w := (init_good h).1

/-- **Columns.** After any history, every declared column of the table has the length of `p1`. -/
theorem C14_columns_equal_length {w w' : World} (ops : List Op) (g : Good w) (h : w.run ops = .ok w') :
    w'.net.table.WF := (World.run_good ops g h).1.wf

/-- the filters and `append` of well-shaped columns individually -/
theorem C14_mask_keeps_lengths (t : Table) (m : List Bool) (h : t.WF) : (t.mask m).WF := Table.mask_WF t m h

/-- `append` refuses a missing required column -/
theorem C14_append_missing_key (t : Table) (c : Cols) (h : c.p1 = none ∨ c.p2 = none ∨ c.beta = none ∨
    (t.keys.dur = true ∧ c.dur = none) ∨ (t.keys.acts = true ∧ c.acts = none) ∨
    (t.keys.se = true ∧ (c.start = none ∨ c.stop = none))) : t.append c = .error .keyMissing := by
  unfold Table.append
  split
  · rename_i h1 h2 h3 h4 h5 h6 h7
    rcases h with h | h | h | ⟨hk, h⟩ | ⟨hk, h⟩ | ⟨hk, h | h⟩
    · simp [h] at h1
    · simp [h] at h2
    · simp [h] at h3
    · simp [need, hk, h] at h4
    · simp [need, hk, h] at h5
    · simp [need, hk, h] at h6
    · simp [need, hk, h] at h7
  · rfl

/-! ### Endpoints are active agents -/

/-- **Endpoints (spec).** For every class whose `add_pairs` uses identifiers — all classes in the `spec` variant,
    and all but ErdosRenyiNet / DiskNet as the code is today — after any history both endpoints of every edge are
    in `auids`. -/
theorem C14_endpoints_active {w w' : World} (ops : List Op) (g : Good w) (hs : w.net.specLike)
    (h : w.run ops = .ok w') : ∀ u ∈ w'.net.table.endpoints, u ∈ w'.pop.auids := by
  obtain ⟨g', hk, hv⟩ := World.run_good ops g h
  exact g'.active (by simpa [Net.specLike, hk, hv] using hs)

/-- In loop order (deaths are followed by the removal of the dead before the next network step) every active
    agent is alive when the network is used: one `die`/`removeDead` pair restores "active ⇒ alive". -/
theorem C14_active_alive_after_removal (p : Pop) (uids : List Nat) :
    ∀ u ∈ ((p.die uids).dropDead).auids, (p.die uids).alive u = true := by
  intro u hu
  simp only [Pop.dropDead, Pop.deadUids, List.mem_filter, List.contains_eq_mem, List.mem_filter,
    Bool.not_eq_eq_eq_not, Bool.not_true, decide_eq_false_iff_not, not_and, Bool.not_eq_true,
    decide_eq_true_eq] at hu
  have := hu.2 hu.1
  simpa using this

/-- **Endpoints (asis, partial).** ErdosRenyiNet / DiskNet as the code is today: as long as no agent has been
    removed (the history contains no `removeDead`) every endpoint is an active agent. -/
theorem C14_endpoints_active_asis_partial {n : Nat} {f : Nat → Bool} {a : Nat → Rat} {k : Kind} {c : Choice}
    {w w' : World} (hk : k = .erdos ∨ k = .disk) (hi : World.init n f a k .asis c = .ok w)
    (ops : List Op) (hno : ∀ op ∈ ops, op.isRemoveDead = false) (h : w.run ops = .ok w') :
    ∀ u ∈ w'.net.table.endpoints, u ∈ w'.pop.auids := by
  obtain ⟨g0, hk0, hv0⟩ := init_good hi
  have hpop : w.pop = Pop.fresh n f a := by
    unfold World.init at hi; dsimp only at hi; split at hi
    · simp only [Except.ok.injEq] at hi; subst hi; rfl
    · simp at hi
  have a0 : AsisOK w := by
    refine ⟨by rw [hk0]; exact hk, hv0, by rw [hpop]; rfl, ?_⟩
    -- at init the endpoints are positions below the population size
    unfold World.init at hi; dsimp only at hi; split at hi
    · rename_i net hnet
      simp only [Except.ok.injEq] at hi; subst hi
      unfold Net.init at hnet
      rcases hk with rfl | rfl <;> dsimp only [Net.new] at hnet
      all_goals
        obtain ⟨_, _, he⟩ := addPairs_endpoints hnet
        intro u hu
        rcases he u hu with hu | ⟨x, y, hnp, hu⟩
        · exact absurd hu (by simp [Table.endpoints, Table.empty])
        · have := newPairs_asis_lt (by first | exact Or.inl rfl | exact Or.inr rfl) rfl hnp u hu
          simpa [Pop.fresh] using this
    · simp at hi
  have a1 := AsisOK.run ops a0 hno h
  intro u hu
  rw [a1.full]; exact List.mem_range.mpr (a1.lt u hu)

/-- the world of the counterexample: three agents of positive age, ErdosRenyiNet as the code is today -/
def cexWorld : Except Err World :=
  World.init 3 (fun _ => false) (fun _ => 1) .erdos .asis {}

/-- agent 0 dies and is removed; the next step draws the index pair (0, 1) among the two survivors -/
def cexOps : List Op := [.die [0], .removeDead, .netStep 1 1 { pairs := [(0, 1)] }]

/-- **Endpoints (asis, counterexample).** One death suffices: the edge `(0, 1)` names the removed agent 0. -/
theorem C14_endpoints_active_asis_counterexample :
    ∃ w w', cexWorld = .ok w ∧ w.run cexOps = .ok w' ∧ w'.pop.auids = [1, 2] ∧
      w'.net.table.p1 = [0] ∧ w'.net.table.p2 = [1] ∧ ¬ (∀ u ∈ w'.net.table.endpoints, u ∈ w'.pop.auids) := by
  refine ⟨_, _, rfl, rfl, by decide +kernel, by decide +kernel, by decide +kernel, by decide +kernel⟩

/-- the same history in the `spec` variant yields the edge `(1, 2)` -/
example : ∃ w w', World.init 3 (fun _ => false) (fun _ => 1) .erdos .spec {} = .ok w ∧ w.run cexOps = .ok w' ∧
    w'.net.table.p1 = [1] ∧ w'.net.table.p2 = [2] := by
  refine ⟨_, _, rfl, rfl, by decide +kernel, by decide +kernel⟩

/-! ### Removed agents vanish -/

/-- `remove_uids` leaves no edge touching a removed agent -/
theorem C14_removed_vanish (t : Table) (uids : List Nat) : ∀ u ∈ (t.removeUids uids).endpoints, u ∉ uids :=
  removeUids_not_mem t uids

/-- … and an agent that is no longer active never becomes active again, so (for identifier-based classes) never
    reappears in any later table. -/
theorem C14_removed_never_return {w w' : World} (ops : List Op) (g : Good w) (hs : w.net.specLike)
    (h : w.run ops = .ok w') (u : Nat) (hu : u < w.pop.nUids) (hn : u ∉ w.pop.auids) :
    u ∉ w'.pop.auids ∧ u ∉ w'.net.table.endpoints := by
  have h1 := (run_auids ops h u hu hn).2
  exact ⟨h1, fun hm => h1 (C14_endpoints_active ops g hs h u hm)⟩

/-! ### Timed edges -/

/-- `end_pairs` acts row by row: each row `(p1, p2, dur)` becomes `(p1, p2, dur - dt)` and is kept iff
    `dur - dt > 0` and both endpoints are alive; order is preserved. -/
theorem C14_end_pairs_rows (t : Table) (dt : Rat) (alive : Nat → Bool) :
    (t.endPairs dt alive).rows = t.rows.filterMap (ageRow dt alive) := Table.endPairs_rows t dt alive

/-- **Timed edges.** An edge of duration `d` created at step `s` (appended after that step's `end_pairs`), whose
    endpoints stay alive, is present at step `s + k` iff `k = 0 ∨ k·dt < d`, i.e. exactly at steps
    `s … s + max(⌈d/dt⌉ − 1, 0)`, and then carries the remaining duration `d − k·dt`. -/
theorem C14_timed_edges (dt : Rat) (hdt : 0 < dt) (alive : Nat → Bool) (a b : Nat) (d : Rat)
    (ha : alive a = true) (hb : alive b = true) (k : Nat) :
    ageRowN dt alive k (a, b, d) = if k = 0 ∨ (k : Int) < (d / dt).ceil then some (a, b, d - k * dt) else none := by
  rw [ageRowN_alive dt hdt alive a b d ha hb k]
  have : ((k : Int) < (d / dt).ceil) ↔ ((k : Rat) * dt < d) := by
    rw [Rat.lt_ceil_iff, Rat.lt_div_iff hdt]
    try rfl
  simp only [this]

/-- **Timed edges, table level, networks on their own timestep.**  `dt` is the NETWORK's timestep (the amount
    `end_pairs` subtracts: `Gen.endPairsDur = "dur-dt"` with `dt = self.t.dt`), a step is one update of the network.
    If the table holds `old ++ created` right after the step that created `created`, then after `k` further updates
    (each with its own set of living agents and its own new edges) the table is
    `aged old ++ aged created ++ (what those updates added)`: the edges created at step `s` appear at step `s + k`
    exactly as their `k`-times aged versions, contiguous and in their original order. -/
theorem C14_timed_edges_table (dt : Rat) (old created : List (Nat × Nat × Rat))
    (steps : List ((Nat → Bool) × List (Nat × Nat × Rat))) :
    runRowsL dt (old ++ created) steps =
      old.filterMap (ageRowL dt (steps.map (·.1))) ++ created.filterMap (ageRowL dt (steps.map (·.1))) ++ runRowsL dt [] steps := by
  rw [runRowsL_split, List.append_assoc]
  congr 1
  have := runRowsL_split dt steps created []
  simpa using this

/-- … and an edge `(a, b, d)` whose endpoints are alive at each of those `k` updates is among them iff `k = 0` or
    `k < ⌈d/dt⌉` (`d` and `dt` in the network's unit), with remaining duration `d − k·dt`. -/
theorem C14_timed_edges_own_dt (dt : Rat) (hdt : 0 < dt) (a b : Nat) (d : Rat) (als : List (Nat → Bool))
    (h : ∀ al ∈ als, al a = true ∧ al b = true) :
    ageRowL dt als (a, b, d) =
      if als.length = 0 ∨ (als.length : Int) < (d / dt).ceil then some (a, b, d - als.length * dt) else none := by
  rw [ageRowL_alive dt hdt a b als d h]
  have : ((als.length : Int) < (d / dt).ceil) ↔ ((als.length : Rat) * dt < d) := by
    rw [Rat.lt_ceil_iff, Rat.lt_div_iff hdt]
    try rfl
  simp only [this]

/-- one network update of a dynamic table, in rows: `step()` = `end_pairs` then `append` -/
theorem C14_step_rows {t t' : Table} {a b : List Nat} {c : Choice} (dt : Rat) (alive : Nat → Bool) (hw : t.WF)
    (hd : t.keys.dur = true) (hab : a.length = b.length) (h : (t.endPairs dt alive).append (mkCols a b c) = .ok t') :
    t'.rows = t.rows.filterMap (ageRow dt alive) ++ a.zip (b.zip ((List.range a.length).map c.durAt)) := by
  have hw' : (t.endPairs dt alive).WF := by
    have g : ({ t with dur := t.dur.map (· - dt) } : Table).WF := by
      obtain ⟨w2, w3, w4, w5, w6, w7⟩ := hw; exact ⟨w2, w3, by simpa using w4, w5, w6, w7⟩
    exact Table.mask_WF _ _ g
  rw [Table.rows_append hw' hd hab h, Table.endPairs_rows]

/-- an edge with a dead endpoint does not survive `end_pairs` -/
theorem C14_dead_endpoint_ends (dt : Rat) (alive : Nat → Bool) (a b : Nat) (d : Rat)
    (h : alive a = false ∨ alive b = false) : ageRow dt alive (a, b, d) = none := by
  rcases h with h | h <;> simp [ageRow, h]

/-! ### Stated durations -/

/-- **Source of the durations.** In every duration-carrying class the `dur` column handed to `append` is the class's
    duration parameter itself — repeated for every new edge when it is a plain number, drawn once per new edge when it is
    a distribution — and nothing else (no rescaling between parameter and column); `MaternalNet.add_pairs` appends the
    durations it is given, starting at the given start (default: the network's `ti`) and ending at `start + dur`.
    (Obligation on the regenerated file: it stops elaborating when any other expression can reach the column.) -/
theorem C14_source_durations_stated :
    Gen.durForms = [("RandomNet", ["drawn(dur)", "plain(dur)"]), ("ErdosRenyiNet", ["drawn(dur)", "plain(dur)"]),
                    ("MFNet", ["drawn(duration)"]), ("MSMNet", ["drawn(duration)"]), ("EmbeddingNet", ["drawn(duration)"])] ∧
    Gen.matAddForms = ["dur=arg(dur)", "start=arg(start)|ti", "end=start+dur"] := by decide

/-- the column a duration parameter states for `n` new edges is what `add_pairs` writes (`mkCols` with `Choice.withDur`) -/
theorem C14_stated_duration_column {s : DurPar} {n : Nat} {col : List Rat} (h : s.column n = some col) :
    (List.range n).map s.durAt = col ∧ col.length = n ∧
    (∀ d, s = .plain d → col = List.replicate n d) ∧ (∀ ds, s = .drawn ds → col = ds) := by
  refine ⟨DurPar.map_durAt h, ?_, ?_, ?_⟩
  · rw [← DurPar.map_durAt h]; simp
  · intro d hs; subst hs; simpa [DurPar.column] using h.symm
  · intro ds hs; subst hs
    simp only [DurPar.column] at h
    split at h
    · simpa using h.symm
    · simp at h

/-- **Stated duration.** One `add_pairs` of a duration-carrying class (RandomNet, ErdosRenyiNet, MFNet, MSMNet,
    EmbeddingNet; any random choice of endpoints) whose duration parameter states `s`: the table gains exactly the rows
    `(p1ᵢ, p2ᵢ, colᵢ)` where `col` is the stated column — the parameter itself for a plain number, the i-th draw for a
    distribution — appended after the existing rows, which are untouched. -/
theorem C14_stated_duration {n n' : Net} {p : Pop} {c : Choice} {s : DurPar} {a b : List Nat}
    (hw : n.table.WF) (hd : n.table.keys.dur = true) (hk : n.kind ≠ .disk)
    (hnp : n.newPairs p c = .ok (some (a, b))) (h : n.addPairsStated p c s = .ok n') :
    ∃ col, s.column a.length = some col ∧ n'.table.rows = n.table.rows ++ a.zip (b.zip col) ∧
      n'.table.dur = n.table.dur ++ col := addPairsStated_rows hw hd hk hnp h

/-- … in a whole network update (`end_pairs` with the network's own `dt`, then `add_pairs`): old rows are aged, the new
    ones carry the stated durations. -/
theorem C14_stated_duration_step {n n' : Net} {p : Pop} {c : Choice} {s : DurPar} {a b : List Nat} (dt : Rat)
    (hw : n.table.WF) (hd : n.table.keys.dur = true) (hk : n.kind = .random ∨ n.kind = .erdos)
    (hnp : { n with table := n.table.endPairs dt p.alive }.newPairs p c = .ok (some (a, b)))
    (h : n.stepStated p dt c s = .ok n') :
    ∃ col, s.column a.length = some col ∧
      n'.table.rows = n.table.rows.filterMap (ageRow dt p.alive) ++ a.zip (b.zip col) := by
  have hw' : (n.table.endPairs dt p.alive).WF := by
    have g : ({ n.table with dur := n.table.dur.map (· - dt) } : Table).WF := by
      obtain ⟨w2, w3, w4, w5, w6, w7⟩ := hw; exact ⟨w2, w3, by simpa using w4, w5, w6, w7⟩
    exact Table.mask_WF _ _ g
  have hstep : ({ n with table := n.table.endPairs dt p.alive } : Net).addPairsStated p c s = .ok n' := by
    unfold Net.stepStated at h
    rcases hk with hk | hk <;> simpa [hk] using h
  have hk' : ({ n with table := n.table.endPairs dt p.alive } : Net).kind ≠ .disk := by
    rcases hk with hk | hk <;> simp [hk]
  obtain ⟨col, hc, hr, _⟩ := addPairsStated_rows (n := { n with table := n.table.endPairs dt p.alive }) hw' hd hk' hnp hstep
  exact ⟨col, hc, by rw [hr]; simp only [Table.endPairs_rows]⟩

/-- **Stated duration ⇒ lifetime.** An edge created by a class whose duration parameter is the plain number `D` (in the
    network's unit) carries `D`, so — its endpoints alive at each of the next `k` updates of the network, whose own
    timestep is `dt` — it is present after those updates iff `k = 0` or `k < ⌈D/dt⌉`, with remaining duration `D − k·dt`:
    the lifetime is determined by the PARAMETER and the network's timestep alone. -/
theorem C14_stated_duration_lifetime (dt : Rat) (hdt : 0 < dt) (D : Rat) {a b : List Nat} {col : List Rat}
    (hcol : (DurPar.plain D).column a.length = some col) (x y : Nat) (d : Rat) (hmem : (x, y, d) ∈ a.zip (b.zip col))
    (als : List (Nat → Bool)) (h : ∀ al ∈ als, al x = true ∧ al y = true) :
    ageRowL dt als (x, y, d) =
      if als.length = 0 ∨ (als.length : Int) < (D / dt).ceil then some (x, y, D - als.length * dt) else none := by
  have hd : d = D := by
    simp only [DurPar.column, Option.some.injEq] at hcol; subst hcol
    have h2 := (List.of_mem_zip hmem).2
    exact List.eq_of_mem_replicate (List.of_mem_zip h2).2
  subst hd
  exact C14_timed_edges_own_dt dt hdt x y d als h

/-- **Maternal window.** `MaternalNet.add_pairs(mothers, unborn, dur)` at network step `ti` appends edges that start at
    `ti`, carry the durations they were given and end at `ti + dur`; existing rows are untouched. -/
theorem C14_maternal_stated_window {t t' : Table} {m u : List Nat} {durs : List Rat} {ti : Rat}
    (hd : t.keys.dur = true) (hse : t.keys.se = true) (h : t.matAddPairsAt m u durs none ti = .ok t') :
    t'.p1 = t.p1 ++ m ∧ t'.p2 = t.p2 ++ u ∧ t'.dur = t.dur ++ durs ∧ t'.start = t.start ++ durs.map (fun _ => ti) ∧
    t'.stop = t.stop ++ durs.map (fun d => ti + d) ∧ t'.beta = t.beta ++ List.replicate m.length 1 :=
  matAddPairsAt_cols hd hse h

/-- observable part of the result of one `add_pairs` -/
def durOf : Except Err Net → Option (List Nat × List Nat × List Rat)
  | .ok n => some (n.table.p1, n.table.p2, n.table.dur)
  | .error _ => none

/-- a RandomNet with `dur = 5/2`: three new edges, each carrying 5/2 (hypotheses of `C14_stated_duration` are met) -/
example : durOf ((Net.new .random .spec).addPairsStated (Pop.fresh 3 (fun _ => false) (fun _ => 20))
      { nOf := fun _ => 1, target := [1, 2, 0] } (.plain (5 / 2))) = some ([0, 1, 2], [1, 2, 0], [5 / 2, 5 / 2, 5 / 2]) := by
  decide +kernel

/-- a distribution-valued duration: the i-th new edge gets the i-th draw; a draw of the wrong length is rejected -/
example : durOf ((Net.new .random .spec).addPairsStated (Pop.fresh 3 (fun _ => false) (fun _ => 20))
      { nOf := fun _ => 1, target := [1, 2, 0] } (.drawn [1 / 3, 7, 2])) = some ([0, 1, 2], [1, 2, 0], [1 / 3, 7, 2]) ∧
    durOf ((Net.new .random .spec).addPairsStated (Pop.fresh 3 (fun _ => false) (fun _ => 20))
      { nOf := fun _ => 1, target := [1, 2, 0] } (.drawn [1 / 3, 7])) = none := by
  constructor <;> decide +kernel

/-- a whole update with stated durations: dt = 1/4, the old edge of remaining duration 1/2 is aged to 1/4, the new ones carry 1 -/
example : durOf (({ Net.new .random .spec with table := { Table.empty Kind.random.keys with p1 := [0, 1], p2 := [2, 0], beta := [1, 1], dur := [1 / 2, 1 / 4] } }).stepStated
      (Pop.fresh 3 (fun _ => false) (fun _ => 20)) (1 / 4) { nOf := fun u => if u = 0 then 1 else 0, target := [0] } (.plain 1)) =
    some ([0, 0], [2, 0], [1 / 4, 1]) := by decide +kernel

/-- maternal edge added at ti = 4 with duration 3: starts at 4, ends at 7 -/
example : ((Table.empty Kind.maternal.keys).matAddPairsAt [0] [3] [3] none 4).toOption.map (fun t => (t.start, t.stop, t.dur)) =
    some ([4], [7], [3]) := by decide +kernel

/-! ### Durations given as time parameters -/

/-- **Time-parameter durations (partial).** `RandomNet(dur=ss.years(D))`: the column holds `D / dt` timesteps, which the
    code counts down by `dt` per update.  When the network's timestep is 1 this is the stated lifetime: present after `k`
    updates iff `k = 0 ∨ k < ⌈D/dt⌉`. -/
theorem C14_timepar_duration_partial (dt : Rat) (hdt : dt = 1) (a b : Nat) (D : Rat) (als : List (Nat → Bool))
    (h : ∀ al ∈ als, al a = true ∧ al b = true) :
    ageRowL (stepsCountdown .asis dt) als (a, b, timeparValue D dt) =
      if als.length = 0 ∨ (als.length : Int) < (D / dt).ceil then some (a, b, timeparValue D dt - als.length * dt) else none := by
  subst hdt
  have e1 : ∀ x : Rat, x / 1 = x := by intro x; grind
  have := C14_timed_edges_own_dt 1 (by decide) a b (timeparValue D 1) als h
  simpa [stepsCountdown, timeparValue, e1] using this

/-- **Time-parameter durations (counterexample).** `dur = ss.years(2)` with `dt = 1/2`: the column holds 4 (timesteps) and
    loses 1/2 per update, so the edge stated to last 2 years = 4 updates is still there after 4, 5, 6 and 7 updates and
    ends only after 8 (= 4 years). -/
theorem C14_timepar_duration_counterexample :
    (List.range 10).map (fun k => (ageRowL (stepsCountdown .asis (1 / 2)) (List.replicate k (fun _ => true)) (0, 1, timeparValue 2 (1 / 2))).isSome) =
      [true, true, true, true, true, true, true, true, false, false] ∧
    ¬ ((4 : Int) < ((2 : Rat) / (1 / 2)).ceil) := by
  constructor <;> decide +kernel

/-- **Time-parameter durations (spec).** Counting a timestep-valued duration down by ONE per update gives the stated
    lifetime for every timestep: present after `k` updates iff `k = 0 ∨ k < ⌈D/dt⌉`. -/
theorem C14_timepar_duration_spec (dt : Rat) (a b : Nat) (D : Rat) (als : List (Nat → Bool))
    (h : ∀ al ∈ als, al a = true ∧ al b = true) :
    ageRowL (stepsCountdown .spec dt) als (a, b, timeparValue D dt) =
      if als.length = 0 ∨ (als.length : Int) < (D / dt).ceil then some (a, b, timeparValue D dt - als.length) else none := by
  have e1 : ∀ x : Rat, x / 1 = x := by intro x; grind
  have := C14_timed_edges_own_dt 1 (by decide) a b (timeparValue D dt) als h
  simpa [stepsCountdown, timeparValue, e1] using this

/-- the repaired countdown on the counterexample's input: gone after exactly 4 updates -/
example : (List.range 6).map (fun k => (ageRowL (stepsCountdown .spec (1 / 2)) (List.replicate k (fun _ => true)) (0, 1, timeparValue 2 (1 / 2))).isSome) =
    [true, true, true, true, false, false] := by decide +kernel

/-! ### Static networks -/

/-- **Static.** After any history the edge list of a StaticNet is a sub-list of the initial one … -/
theorem C14_static_only_shrinks : ∀ (ops : List Op) {w w' : World}, w.net.kind = .static → w.run ops = .ok w' →
    (w'.net.table.p1.zip w'.net.table.p2).Sublist (w.net.table.p1.zip w.net.table.p2) ∧ w'.net.kind = .static
  | [], w, w', hk, h => by simp only [World.run, Except.ok.injEq] at h; subst h; exact ⟨List.Sublist.refl _, hk⟩
  | op :: ops, w, w', hk, h => by
      simp only [World.run] at h
      split at h
      · rename_i w1 h1
        have hstep : (w1.net.table.p1.zip w1.net.table.p2).Sublist (w.net.table.p1.zip w.net.table.p2) ∧
            w1.net.kind = .static := by
          cases op with
          | grow k f a => simp only [World.step, Except.ok.injEq] at h1; subst h1; exact ⟨List.Sublist.refl _, hk⟩
          | die uids => simp only [World.step, Except.ok.injEq] at h1; subst h1; exact ⟨List.Sublist.refl _, hk⟩
          | setAge a => simp only [World.step, Except.ok.injEq] at h1; subst h1; exact ⟨List.Sublist.refl _, hk⟩
          | removeDead =>
              simp only [World.step, Except.ok.injEq] at h1; subst h1
              exact ⟨Table.mask_pairs_sublist _ _, hk⟩
          | netStep dt ti c =>
              simp only [World.step, Net.step, hk] at h1
              simp only [Except.ok.injEq] at h1; subst h1; exact ⟨List.Sublist.refl _, hk⟩
          | matAdd m u d s => simp [World.step, hk] at h1
          | matEnd ti => simp [World.step, hk] at h1
        obtain ⟨s2, k2⟩ := C14_static_only_shrinks ops hstep.2 h
        exact ⟨s2.trans hstep.1, k2⟩
      · simp at h

/-- … and only `remove_dead` changes it. -/
theorem C14_static_changes_only_through_death {w w' : World} {op : Op} (hk : w.net.kind = .static)
    (hop : op.isRemoveDead = false) (h : w.step op = .ok w') : w'.net.table.p1 = w.net.table.p1 ∧
    w'.net.table.p2 = w.net.table.p2 ∧ w'.net.table.beta = w.net.table.beta := by
  cases op with
  | grow k f a => simp only [World.step, Except.ok.injEq] at h; subst h; exact ⟨rfl, rfl, rfl⟩
  | die uids => simp only [World.step, Except.ok.injEq] at h; subst h; exact ⟨rfl, rfl, rfl⟩
  | setAge a => simp only [World.step, Except.ok.injEq] at h; subst h; exact ⟨rfl, rfl, rfl⟩
  | removeDead => simp [Op.isRemoveDead] at hop
  | netStep dt ti c =>
      simp only [World.step, Net.step, hk] at h
      simp only [Except.ok.injEq] at h; subst h; exact ⟨rfl, rfl, rfl⟩
  | matAdd m u d s => simp [World.step, hk] at h
  | matEnd ti => simp [World.step, hk] at h

/-! ### Partnership networks -/

/-- **Eligibility.** Every endpoint a partnership network adds is an active agent that is alive, participates, is
    past debut, has the sex the class pairs in that column (`p1` male; `p2` female, MSMNet: male), and is in no
    current edge. -/
theorem C14_eligible_only {n : Net} {p : Pop} {c : Choice} {a b : List Nat}
    (hk : n.kind.partnership = true) (h : n.newPairs p c = .ok (some (a, b))) :
    (∀ u ∈ a, u ∈ p.auids ∧ p.alive u = true ∧ n.participant u = true ∧ n.debut u < p.age u ∧ p.female u = false ∧
        u ∉ n.table.endpoints) ∧
    (∀ u ∈ b, u ∈ p.auids ∧ p.alive u = true ∧ n.participant u = true ∧ n.debut u < p.age u ∧
        p.female u = decide (n.kind ≠ .msm) ∧ u ∉ n.table.endpoints) := by
  obtain ⟨h1, h2⟩ := newPairs_available hk h
  constructor
  · intro u hu
    obtain ⟨m1, m2, m3, m4, m5⟩ := mem_available.mp (h1 u hu)
    simp only [Net.active, Bool.and_eq_true, decide_eq_true_eq] at m3
    exact ⟨m1, m3.2, m3.1.1, m3.1.2, m2, by simp [Table.endpoints, m4, m5]⟩
  · intro u hu
    obtain ⟨m1, m2, m3, m4, m5⟩ := mem_available.mp (h2 u hu)
    simp only [Net.active, Bool.and_eq_true, decide_eq_true_eq] at m3
    exact ⟨m1, m3.2, m3.1.1, m3.1.2, m2, by simp [Table.endpoints, m4, m5]⟩

/-- **Monogamy.** In a partnership network (MFNet, MSMNet, EmbeddingNet), after any history, no agent is an endpoint
    of two edges (nor twice of one). -/
theorem C14_monogamy {w w' : World} (ops : List Op) (g : Good w) (hp : w.net.kind.partnership = true)
    (h : w.run ops = .ok w') : w'.net.table.endpoints.Nodup := by
  obtain ⟨g', hk, _⟩ := World.run_good ops g h
  exact g'.mono (by rw [hk]; exact hp)

/-! ### Random networks -/

/-- **Random degree.** The edges RandomNet adds in one step give every eligible agent (`alive ∧ age > 0`) exactly
    `nᵢ` outgoing and `nᵢ` incoming half-edges, and nobody else any. -/
theorem C14_random_degree {n : Net} {p : Pop} {c : Choice} {a b : List Nat} (hk : n.kind = .random)
    (hnd : p.auids.Nodup) (h : n.newPairs p c = .ok (some (a, b))) (u : Nat) :
    a.count u = (if u ∈ p.auids ∧ p.alive u = true ∧ 0 < p.age u then c.nOf u else 0) ∧ b.count u = a.count u := by
  unfold Net.newPairs at h
  simp only [hk] at h
  split at h
  · rename_i hp
    simp only [Except.ok.injEq, Option.some.injEq, Prod.mk.injEq] at h
    obtain ⟨rfl, rfl⟩ := h
    refine ⟨?_, ((isPerm_iff _ _).mp hp).count_eq u⟩
    rw [count_randomSource _ _ _ (List.Sublist.nodup List.filter_sublist hnd)]
    simp [List.mem_filter, and_assoc]
  · simp at h

/-! ### RandomNet with a plain-number `n_contacts` -/

/-- **Plain-number contacts (partial).** When every active agent is eligible (`alive ∧ age > 0`) — no newborn of age 0,
    nobody unborn — the position-indexed contact counts have no entries beyond the eligible agents, and today's
    code (`asis`) builds the same source as the repaired one (`spec`), for which `C14_endpoints_active` holds. -/
theorem C14_random_plain_partial (born counts : List Nat) (h : counts.length ≤ born.length) :
    plainSource .asis born counts = plainSource .spec born counts := plainSource_asis_eq_spec h

/-- **Plain-number contacts (counterexample).** Three agents; agent 0 dies and is removed, a newborn of age 0 joins:
    the contact count of the third active position has no eligible agent to go to, its slot keeps the initial value 0
    and the network gets an edge from the removed agent 0. -/
theorem C14_random_plain_counterexample :
    simulate 3 (fun _ => false) (fun _ => 1) .randomPlain .asis { counts := [1, 1, 1], target := [2, 1, 0] }
      [.die [0], .removeDead, .grow 1 (fun _ => false) (fun _ => 0),
       .netStep 1 1 { counts := [1, 1, 1], target := [0, 2, 1] }] =
    .ok { auids := [1, 2, 3], p1 := [1, 2, 0], p2 := [0, 2, 1], beta := [1, 1, 1], dur := [0, 0, 0], stop := [], wf := true } := by
  decide +kernel

/-- the repaired variant rejects a target that mentions the filler -/
example : simulate 3 (fun _ => false) (fun _ => 1) .randomPlain .spec { counts := [1, 1, 1], target := [2, 1, 0] }
      [.die [0], .removeDead, .grow 1 (fun _ => false) (fun _ => 0),
       .netStep 1 1 { counts := [1, 1, 1], target := [2, 1] }] =
    .ok { auids := [1, 2, 3], p1 := [1, 2], p2 := [2, 1], beta := [1, 1], dur := [0, 0], stop := [], wf := true } := by
  decide +kernel

/-! ### Mixing pools -/

/-- `remove_uids` of a MixingPool leaves no removed agent in an explicit group, and removes nobody else -/
theorem C14_pool_removed_vanish (l uids : List Nat) (u : Nat) : u ∈ setdiff l uids ↔ u ∈ l ∧ u ∉ uids := mem_setdiff

/-- **Pools.** After any history of births, deaths and removals every member of an explicit-uid group of a MixingPool /
    MixingPools is an active agent. -/
theorem C14_pool_members_active (ops : List Op) (w : PoolWorld) (h : PoolOK w) : PoolOK (w.run ops) :=
  PoolWorld.run_ok ops h

example : ((PoolWorld.mk (Pop.fresh 4 (fun _ => false) (fun _ => 1)) ⟨[[3, 0, 1], [2, 3]]⟩).run
    [.die [3, 0], .removeDead]).pool.groups = [[1], [2]] := by decide +kernel

/-! ### Non-vacuity -/

/-- a network on its own timestep 1/2: an edge of duration 1.3 is present after 0, 1, 2 updates and gone after 3 = ⌈2.6⌉ -/
example : (List.range 5).map (fun k => (ageRowL (1 / 2) (List.replicate k (fun _ => true)) (7, 8, 13 / 10)).isSome) =
    [true, true, true, false, false] := by decide +kernel


def demoFemale : Nat → Bool := fun u => u % 2 == 0
def demoChoice : Choice := { participant := fun _ => true, debut := fun _ => 15, durAt := fun _ => 2, pick := [0, 2] }

/-- an MFNet over 5 agents aged 20: two males are paired with the chosen females; a death, two births and another
    step follow — the history is accepted, the table is non-empty and satisfies every invariant -/
example : simulate 5 demoFemale (fun _ => 20) .mf .spec demoChoice
      [.die [1], .removeDead, .grow 2 demoFemale (fun _ => 30), .netStep 1 1 { demoChoice with pick := [6] }] =
    .ok { auids := [0, 2, 3, 4, 5, 6], p1 := [3, 5], p2 := [2, 6], beta := [1, 1], dur := [1, 2], stop := [], wf := true } := by
  decide +kernel

example : simulate 5 demoFemale (fun _ => 20) .mf .spec demoChoice [] =
    .ok { auids := [0, 1, 2, 3, 4], p1 := [1, 3], p2 := [0, 2], beta := [1, 1], dur := [2, 2], stop := [], wf := true } := by
  decide +kernel

/-- RandomNet: 3 born agents with 1, 2, 1 half-contacts and a genuine permutation -/
example : simulate 3 demoFemale (fun _ => 20) .random .spec
      { nOf := fun u => if u = 1 then 2 else 1, target := [1, 2, 0, 1], durAt := fun _ => 3 } [] =
    .ok { auids := [0, 1, 2], p1 := [0, 1, 1, 2], p2 := [1, 2, 0, 1], beta := [1, 1, 1, 1], dur := [3, 3, 3, 3], stop := [], wf := true } := by
  decide +kernel

/-- a choice of the wrong shape is rejected: `target` is not a permutation of `source` -/
example : simulate 3 demoFemale (fun _ => 20) .random .spec { nOf := fun _ => 1, target := [0, 0, 1] } [] =
    .error .badChoice := by decide +kernel

/-- a maternal network: prenatal edge added by a conception (duration 3 from step 0); `step` at `ti = 3` zeroes it -/
example : simulate 3 demoFemale (fun _ => 20) .maternal .spec {}
      [.grow 1 demoFemale (fun _ => 0), .matAdd [0] [3] [3] [0], .netStep 1 1 {}, .netStep 1 3 {}] =
    .ok { auids := [0, 1, 2, 3], p1 := [0], p2 := [3], beta := [0], dur := [3], stop := [3], wf := true } := by
  decide +kernel

/-- timed edge: duration 5/2 with dt = 1 is present at offsets 0, 1, 2 and gone at 3 (⌈5/2⌉ = 3) -/
example : (List.range 5).map (fun k => (ageRowN 1 (fun _ => true) k (7, 8, 5 / 2)).isSome) =
    [true, true, true, false, false] := by decide +kernel

end StarsimModel.C14
