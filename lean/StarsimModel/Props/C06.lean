import StarsimModel.Model.TimePar

namespace StarsimModel.C06
open StarsimModel.TimePar

/-- every unit of the regenerated table has a positive length (obligation on the regenerated table) -/
theorem C06_unit_lengths_positive : ∀ r ∈ Gen.timeUnits, 0 < r.2 := by decide +kernel

end StarsimModel.C06
