/-
C06 — Time-unit conversion preserves physical quantities.

Property theorems and non-vacuity examples only.  Model: Model/TimePar.lean (`time_ratio`, the TimePar classes);
helper lemmas: Lemmas/TimePar.lean (ℚ), Lemmas/TimeParReal.lean (ℝ: the same generic definitions with
`Real.exp`/`Real.log`).  The unit table, the alias table and the default-dt constants are regenerated from
/repo/starsim/time.py on every run (Generated/TimeUnits.lean, Generated/TimeParConsts.lean); the theorems
hold for ANY table that meets the `decide`-checked obligations below (positive lengths, consistent aliases),
so changing a constant (e.g. month = 30) re-instantiates them rather than breaking them.
-/
import StarsimModel.Lemmas.TimePar
import StarsimModel.Lemmas.TimeParReal
import Mathlib.Data.Rat.Floor

namespace StarsimModel.C06
open StarsimModel.TimePar

/-! ### Obligations on the regenerated tables -/

/-- every unit of `time_units` has a positive length -/
theorem C06_unit_lengths_positive : ∀ r ∈ Gen.timeUnits, 0 < r.2 := table_lengths_positive

/-- every alias is mapped to the canonical unit of its own row (no alias occurs in two rows), canonical names
    are fixed points, and every canonical unit except "unitless" has a length -/
theorem C06_aliases_consistent :
    (∀ r ∈ Gen.unitAliases, ∀ a ∈ r.2, (canonUnit (some a)).toOption = some (some r.1)) ∧
    (∀ r ∈ Gen.unitAliases, (canonUnit (some r.1)).toOption = some (some r.1)) ∧
    (∀ r ∈ Gen.unitAliases, r.1 = "unitless" ∨ (unitLen r.1).isSome = true) ∧
    (∀ r ∈ Gen.timeUnits, (canonUnit (some r.1)).toOption = some (some r.1)) := by decide +kernel

/-- the default step lengths the code falls back to are positive -/
theorem C06_default_dts_positive : 0 < Gen.defaultSelfDt ∧ 0 < Gen.initFallbackDt ∧ 0 < Gen.toDefaultDt := by decide +kernel

/-! ### `time_ratio`: closed form, reciprocity, transitivity -/

/-- **Closed form.** For all units of the table and all dt (non-zero denominator) the factor is
    `(dt1/dt2)·(len u1/len u2)`; the `==` short-cuts of the code agree with it. -/
theorem C06_ratio_formula {a b : String} {x y d1 d2 : Rat} (ha : unitLen a = some x) (hb : unitLen b = some y) (h2 : d2 ≠ 0) :
    timeRatio (some a) (some d1) (some b) (some d2) = .ok ((d1 / d2) * (x / y)) := timeRatio_known ha hb h2

/-- **Reciprocal**, for every input on which both directions are defined (all units, `None`, unitless, all dt). -/
theorem C06_ratio_reciprocal {u1 u2 : UnitT} {d1 d2 : Option Rat} {r s : Rat}
    (h12 : timeRatio u1 d1 u2 d2 = .ok r) (h21 : timeRatio u2 d2 u1 d1 = .ok s) : r * s = 1 ∧ s = r⁻¹ := by
  have h := timeRatio_trans h12 h21
  rw [timeRatio_self] at h
  have h1 : r * s = 1 := by injection h with h; exact h.symm
  exact ⟨h1, (eq_inv_of_mul_eq_one_right h1)⟩

/-- both directions ARE defined for all units of the table and all non-zero dt -/
theorem C06_ratio_reciprocal_defined {a b : String} {x y d1 d2 : Rat} (ha : unitLen a = some x) (hb : unitLen b = some y)
    (h1 : d1 ≠ 0) (h2 : d2 ≠ 0) :
    ∃ r s, timeRatio (some a) (some d1) (some b) (some d2) = .ok r ∧ timeRatio (some b) (some d2) (some a) (some d1) = .ok s ∧
      r * s = 1 ∧ r ≠ 0 := by
  refine ⟨_, _, timeRatio_known ha hb h2, timeRatio_known hb ha h1, ?_, ?_⟩
  · have := ne_of_gt (unitLen_pos ha); have := ne_of_gt (unitLen_pos hb); field_simp
  · have := ne_of_gt (unitLen_pos ha); have := ne_of_gt (unitLen_pos hb); positivity

/-- **Transitive**, for every input the code accepts. -/
theorem C06_ratio_transitive {u1 u2 u3 : UnitT} {d1 d2 d3 : Option Rat} {r s : Rat}
    (h12 : timeRatio u1 d1 u2 d2 = .ok r) (h23 : timeRatio u2 d2 u3 d3 = .ok s) :
    timeRatio u1 d1 u3 d3 = .ok (r * s) := timeRatio_trans h12 h23

/-- one of the dt is `None` and the other is not: ValueError -/
theorem C06_ratio_rejects_missing_dt (u1 u2 : UnitT) (d : Rat) :
    timeRatio u1 none u2 (some d) = .error .value ∧ timeRatio u1 (some d) u2 none = .error .value := by
  simp [timeRatio, dtRatio]

/-- exactly one side unitless: ValueError -/
theorem C06_ratio_rejects_mixed_unitless (a : String) (d1 d2 : Rat) (h2 : d2 ≠ 0) (ha : isUnitless (some a) = false) :
    timeRatio (some a) (some d1) (some "unitless") (some d2) = .error .value := by
  have hu : isUnitless (some "unitless") = true := by decide +kernel
  have hne : (some a : UnitT) ≠ some "unitless" := by
    intro h; rw [h, hu] at ha; exact absurd ha (by decide)
  simp [timeRatio, dtRatio_some h2, unitRatio, hne, ha, hu]

/-! ### Rejections -/

/-- a unit name outside the alias table is refused by `validate_units` (constructor, `set`, `init`) … -/
theorem C06_rejects_unknown_unit {α : Type} (k : Kind) (v : Val α) (s : String) (pu : UnitT) (pdt sdt : Option Rat)
    (hs : Gen.unitAliases.find? (fun r => r.2.contains s) = none) :
    canonUnit (some s) = .error .value ∧ mk k v (some s) pu pdt sdt = .error .value := by
  have h : canonUnit (some s) = .error .value := by simp only [canonUnit]; rw [hs]
  refine ⟨h, ?_⟩
  unfold mk validateUnits
  simp only [h]

/-- … and by `time_ratio` (KeyError) when it has to be converted to a different unit -/
theorem C06_ratio_rejects_unknown_unit (s b : String) (d1 d2 : Rat) (h2 : d2 ≠ 0) (hsb : s ≠ b)
    (hs : unitLen s = none) (hu : isUnitless (some s) = false) (hb : isUnitless (some b) = false) :
    timeRatio (some s) (some d1) (some b) (some d2) = .error .key := by
  simp [timeRatio, dtRatio_some h2, unitRatio, hsb, hu, hb, hs]

example : Gen.unitAliases.find? (fun r => r.2.contains "fortnight") = none := by decide +kernel

/-- a probability outside [0,1] is a ValueError, scalar branch -/
theorem C06_rejects_prob_outside_unit_interval {α : Type} {o : NumOps α} (law : LawfulOrd o) {k : Kind}
    (hk : k.isTimeProb = true) (f v : α) (hv : o.lt v o.zero = true ∨ o.lt o.one v = true) :
    convScalar o k f v = .error .value := by
  have hz : o.beq v o.zero = false := by
    rcases hv with h | h
    · have := (law.lt_iff _ _).mp h
      cases hb : o.beq v o.zero with
      | false => rfl
      | true => exact absurd ((law.beq_iff _ _).mp hb) this.2
    · cases hb : o.beq v o.zero with
      | false => rfl
      | true =>
          have e := (law.beq_iff _ _).mp hb
          rw [e] at h
          have h01 := (law.lt_iff _ _).mp law.zero_lt_one
          exact absurd h ((law.le_iff_not_lt _ _).mp h01.1)
  have ho : o.beq v o.one = false := by
    rcases hv with h | h
    · cases hb : o.beq v o.one with
      | false => rfl
      | true =>
          have e := (law.beq_iff _ _).mp hb
          rw [e] at h
          have h01 := (law.lt_iff _ _).mp law.zero_lt_one
          exact absurd h ((law.le_iff_not_lt _ _).mp h01.1)
    · have := (law.lt_iff _ _).mp h
      cases hb : o.beq v o.one with
      | false => rfl
      | true => exact absurd ((law.beq_iff _ _).mp hb).symm this.2
  have hr : (o.le o.zero v && o.le v o.one) = false := by
    rcases hv with h | h
    · have : o.le o.zero v = false := by
        cases hl : o.le o.zero v with
        | false => rfl
        | true => exact absurd h ((law.le_iff_not_lt _ _).mp hl)
      simp [this]
    · have : o.le v o.one = false := by
        cases hl : o.le v o.one with
        | false => rfl
        | true => exact absurd h ((law.le_iff_not_lt _ _).mp hl)
      simp [this]
  cases k <;> simp [Kind.isTimeProb] at hk <;> simp [convScalar, hz, ho, hr]

/-- … and array branch: one invalid element makes the whole update raise (after assigning the converted copy) -/
theorem C06_rejects_prob_outside_unit_interval_array {α : Type} (o : NumOps α) {k : Kind} (hk : k.isTimeProb = true)
    (f : α) (l : List α) (hf : o.beq f o.zero = false) (x : α) (hx : x ∈ l)
    (hv : o.lt x o.zero = true ∨ o.lt o.one x = true) :
    (convVal o k f (.array l)).2 = .error .value := by
  have hany : l.any (invalidElem o k) = true := by
    rw [List.any_eq_true]
    refine ⟨x, hx, ?_⟩
    cases k <;> simp [Kind.isTimeProb] at hk <;> (simp [invalidElem]; rcases hv with h | h <;> simp [h])
  simp [convVal, hf, hany]

/-- a negative rate is refused: scalar branch (as is: the error message itself fails, an AttributeError) and array branch (ValueError) -/
theorem C06_rejects_negative_rate {α : Type} {o : NumOps α} (law : LawfulOrd o) (f v : α) (hv : o.lt v o.zero = true) :
    convScalar o .rateProb f v = .error .attr ∧
    ∀ l : List α, v ∈ l → o.beq f o.zero = false → (convVal o .rateProb f (.array l)).2 = .error .value := by
  have hne := (law.lt_iff _ _).mp hv
  have hz : o.beq v o.zero = false := by
    cases hb : o.beq v o.zero with
    | false => rfl
    | true => exact absurd ((law.beq_iff _ _).mp hb) hne.2
  have hp : o.lt o.zero v = false := by
    cases hl : o.lt o.zero v with
    | false => rfl
    | true => exact absurd hl ((law.le_iff_not_lt _ _).mp hne.1)
  refine ⟨by simp [convScalar, hz, hp], ?_⟩
  intro l hl hf
  have hany : l.any (invalidElem o .rateProb) = true := by
    rw [List.any_eq_true]; exact ⟨v, hl, by simp [invalidElem, hv]⟩
  simp [convVal, hf, hany]

/-- a refused update with `die=True` leaves the object uninitialised -/
theorem C06_init_error_not_initialized {α : Type} (o : NumOps α) (t : TP α) (vp : Bool) (pu : UnitT) (pdt ex : Option Rat)
    (uv : Bool) (e : Err) (hi : t.initialized = false)
    (h : (updateCached o (inherit t pu pdt) uv true).2 = .error e) :
    (init o t vp pu pdt ex uv true).2 ≠ .ok () ∧ (init o t vp pu pdt ex uv true).1.initialized = false := by
  unfold init
  by_cases hc : (vp && ex.isSome) = true
  · simp [hc, hi]
  · simp only [hc]
    have hrfl : updateCached o (inherit t pu pdt) uv true = ((updateCached o (inherit t pu pdt) uv true).1, .error e) := by
      rw [← h]
    rw [hrfl]
    have hinit : (updateCached o (inherit t pu pdt) uv true).1.initialized = false := by
      unfold updateCached
      cases updateFactor (inherit t pu pdt) with
      | error e' => simp [inherit, hi]
      | ok f =>
        simp only []
        cases uv with
        | false => simp [inherit, hi]
        | true =>
          simp only [if_true]
          rcases convVal o (inherit t pu pdt).kind (o.ofRat f) (inherit t pu pdt).v with ⟨_ | vals, r⟩ <;> simp [inherit, hi]
    simp [hinit]

/-! ### `dur` and `rate`: the step identities -/

/-- **Duration in steps × step length = the duration in its own unit** (both sides in days):
    `values · dt_parent · len(parent unit) = v · self_dt · len(unit)`, scalar and array, all units, all dt. -/
theorem C06_dur_steps (t : TP Rat) (hk : t.kind = .dur) {u pu : String} {lu lpu s p : Rat}
    (hu : t.unit = some u) (hpu : t.parentUnit = some pu) (hs : t.selfDt = some s) (hp : t.parentDt = some p)
    (hlu : unitLen u = some lu) (hlpu : unitLen pu = some lpu) (hp0 : p ≠ 0) (die : Bool) :
    (updateCached ratOps t true die).2 = .ok () ∧
    (updateCached ratOps t true die).1.values = some (t.v.map (· * ((s / p) * (lu / lpu)))) ∧
    ∀ x : Rat, (x * ((s / p) * (lu / lpu))) * (p * lpu) = x * (s * lu) := by
  rw [updateCached_dur t hk hu hpu hs hp hlu hlpu hp0 die]
  refine ⟨rfl, rfl, fun x => ?_⟩
  have := ne_of_gt (unitLen_pos hlpu)
  field_simp

/-- **A per-step rate divided by the step length = the rate in its own unit**:
    `values / (dt_parent · len(parent)) = v / (self_dt · len(unit))`. -/
theorem C06_rate_steps (t : TP Rat) (hk : t.kind = .rate) {u pu : String} {lu lpu s p : Rat}
    (hu : t.unit = some u) (hpu : t.parentUnit = some pu) (hs : t.selfDt = some s) (hp : t.parentDt = some p)
    (hlu : unitLen u = some lu) (hlpu : unitLen pu = some lpu) (hp0 : p ≠ 0) (hs0 : s ≠ 0) (die : Bool) :
    (updateCached ratOps t true die).2 = .ok () ∧
    (updateCached ratOps t true die).1.values = some (t.v.map (· / ((s / p) * (lu / lpu)))) ∧
    ∀ x : Rat, (x / ((s / p) * (lu / lpu))) / (p * lpu) = x / (s * lu) := by
  rw [updateCached_rate t hk hu hpu hs hp hlu hlpu hp0 hs0 die]
  refine ⟨rfl, rfl, fun x => ?_⟩
  have := ne_of_gt (unitLen_pos hlpu); have := ne_of_gt (unitLen_pos hlu)
  field_simp

/-- **Parent inheritance** (`TimePar.init`): a given parent unit/dt wins; a missing own unit is the parent's; a missing
    parent unit is the own unit; a missing parent dt is `self_dt`, then the fallback constant. -/
theorem C06_init_inherits {α : Type} (t : TP α) (pu : UnitT) (pdt : Option Rat) :
    (∀ x, pu = some x → (inherit t pu pdt).parentUnit = some x) ∧
    (∀ d, pdt = some d → (inherit t pu pdt).parentDt = some d) ∧
    (∀ x, t.unit = some x → (inherit t pu pdt).unit = some x) ∧
    (t.unit = none → (inherit t pu pdt).unit = orElse pu t.parentUnit) ∧
    (pu = none → t.parentUnit = none → (inherit t pu pdt).parentUnit = t.unit) ∧
    (pdt = none → t.parentDt = none → (inherit t pu pdt).parentDt = orElse t.selfDt (some Gen.initFallbackDt)) ∧
    (inherit t pu pdt).v = t.v ∧ (inherit t pu pdt).selfDt = t.selfDt ∧ (inherit t pu pdt).kind = t.kind := by
  refine ⟨?_, ?_, ?_, ?_, ?_, ?_, rfl, rfl, rfl⟩
  · intro x h; subst h; simp [inherit, orElse]
  · intro d h; subst h; simp [inherit, orElse]
  · intro x h; simp [inherit, orElse, h]
  · intro h; simp [inherit, orElse, h]
  · intro h1 h2; subst h1; simp [inherit, orElse, h2]; cases t.unit <;> rfl
  · intro h1 h2; subst h1; simp [inherit, orElse, h2]

/-- `init` through keywords on a well-formed `dur`: initialised, linked to the parent, `values` = the converted duration -/
theorem C06_init_dur (v : Val Rat) {u pu : String} {lu lpu p : Rat}
    (hlu : unitLen u = some lu) (hlpu : unitLen pu = some lpu) (hp0 : p ≠ 0)
    (hnu : canonUnit (some u) = .ok (some u)) (hnpu : canonUnit (some pu) = .ok (some pu)) :
    ∃ t t', mk .dur v (some u) none none (some 1) = .ok t ∧
      init ratOps t false (some pu) (some p) none true true = (t', .ok ()) ∧
      t'.initialized = true ∧ t'.parentUnit = some pu ∧ t'.parentDt = some p ∧
      t'.values = some (v.map (· * ((1 / p) * (lu / lpu)))) := by
  have hv := validateUnits_of (a := (⟨.dur, v, some u, none, none, some 1, none, none, false⟩ : TP Rat)) (u := some u) (pu := none) hnu rfl
  have hmk : mk .dur v (some u) none none (some 1) = .ok ⟨.dur, v, some u, none, none, some 1, none, none, false⟩ := by
    simp only [mk, hv]
  refine ⟨_, ⟨.dur, v, some u, some pu, some p, some 1, some ((1 / p) * (lu / lpu)), some (v.map (· * ((1 / p) * (lu / lpu)))), true⟩,
          hmk, ?_, rfl, rfl, rfl, rfl⟩
  unfold init
  simp only [Bool.false_and, Bool.false_eq_true, if_false]
  rw [updateCached_dur (u := u) (pu := pu) (s := 1) (p := p) (lu := lu) (lpu := lpu) _ rfl rfl rfl rfl rfl hlu hlpu hp0]
  simp only
  rw [validateUnits_of (u := some u) (pu := some pu) hnu hnpu]
  rfl

/-! ### `to`: converting and converting back -/

/-- **Round trip.** `x.to(u, d).to(x.unit, x.self_dt)` has the original value — `dur` and `rate`, scalar and array,
    every target unit/dt for which both conversions are defined. -/
theorem C06_to_roundtrip (t : TP Rat) (hk : t.kind = .dur ∨ t.kind = .rate) {u0 : String} {s0 : Rat}
    (hu : t.unit = some u0) (hs : t.selfDt = some s0) (u : UnitT) (d : Option Rat) (y z : TP Rat)
    (h1 : convertTo ratOps t u d = .ok y) (h2 : convertTo ratOps y (some u0) (some s0) = .ok z) :
    z.v = t.v ∧ z.unit = t.unit ∧ z.selfDt = t.selfDt := by
  obtain ⟨f1, vals1, hf1, hc1, rfl⟩ := convertTo_ok h1
  obtain ⟨f2, vals2, hf2, hc2, rfl⟩ := convertTo_ok h2
  simp only [rebuilt, tgtUnit, tgtDt, orElse_some, ratOps_ofRat] at hf2 hc2 ⊢
  have hprod : f1 * f2 = 1 := by
    have h := timeRatio_trans hf1 hf2
    rw [hu, hs, timeRatio_self] at h
    injection h with h; exact h.symm
  have h10 : f1 ≠ 0 := left_ne_zero_of_mul_eq_one hprod
  have h20 : f2 ≠ 0 := right_ne_zero_of_mul_eq_one hprod
  refine ⟨?_, hu.symm, hs.symm⟩
  rcases hk with hk | hk
  · rw [hk] at hc1 hc2
    rw [ratOps_ofRat, convVal_dur] at hc1
    rw [convVal_dur] at hc2
    simp only [Prod.mk.injEq, Option.some.injEq, and_true] at hc1 hc2
    rw [← hc2, ← hc1, Val.map_map]
    exact Val.map_id' _ (fun x => by simp only [Function.comp]; rw [mul_assoc, hprod, mul_one]) _
  · rw [hk] at hc1 hc2
    rw [ratOps_ofRat, convVal_rate h10] at hc1
    rw [convVal_rate h20] at hc2
    simp only [Prod.mk.injEq, Option.some.injEq, and_true] at hc1 hc2
    rw [← hc2, ← hc1, Val.map_map]
    refine Val.map_id' _ (fun x => ?_) _
    simp only [Function.comp]
    rw [div_div, hprod, div_one]

/-! ### Arithmetic -/

/-- **`mul`/`div`/`neg` act on `v`** and rebuild the object; dt fields are kept and the units are only normalised -/
theorem C06_arith_on_v {α : Type} (o : NumOps α) (t t' : TP α) (w : Val α) (h : withV o t w = .ok t') :
    t'.v = w ∧ t'.kind = t.kind ∧ t'.selfDt = t.selfDt ∧ t'.parentDt = t.parentDt ∧
    canonUnit t.unit = .ok t'.unit ∧ canonUnit t.parentUnit = .ok t'.parentUnit := by
  unfold withV at h
  -- the object handed to `validate_units` has the new `v` and the receiver's other fields
  have key : ∀ (a : TP α), a.v = w → a.kind = t.kind → a.selfDt = t.selfDt → a.parentDt = t.parentDt → a.unit = t.unit →
      a.parentUnit = t.parentUnit → validateUnits a = (t', .ok ()) →
      t'.v = w ∧ t'.kind = t.kind ∧ t'.selfDt = t.selfDt ∧ t'.parentDt = t.parentDt ∧
      canonUnit t.unit = .ok t'.unit ∧ canonUnit t.parentUnit = .ok t'.parentUnit := by
    intro a hv hk hs hp hu hpu hval
    obtain ⟨c1, c2, e1, e2, e3, e4, _, _, _⟩ := validateUnits_ok hval
    exact ⟨e1.trans hv, e2.trans hk, e3.trans hs, e4.trans hp, hu ▸ c1, hpu ▸ c2⟩
  unfold setPars at h
  simp only [Option.getD_some, orElse_none] at h
  by_cases hi : (t.initialized || false) = true
  · simp only [hi, if_true] at h
    generalize hg : updateCached o { t with v := w } true true = res at h
    obtain ⟨a, r⟩ := res
    have hh := updateCached_frame o { t with v := w } true true
    rw [hg] at hh
    obtain ⟨h1, h2, h3, h4, h5, h6, _⟩ := hh
    cases r with
    | error e => simp at h
    | ok _ =>
      simp only at h
      rcases hval : validateUnits a with ⟨b, _ | _⟩
      · rw [hval] at h; simp at h
      · rw [hval] at h
        simp only [Except.ok.injEq] at h
        subst h
        exact key a h1 h2 h3 h4 h5 h6 hval
  · simp only [hi] at h
    rcases hval : validateUnits { t with v := w } with ⟨b, _ | _⟩
    · rw [hval] at h; simp at h
    · rw [hval] at h
      simp only [Bool.false_eq_true, if_false, Except.ok.injEq] at h
      subst h
      exact key { t with v := w } rfl rfl rfl rfl rfl rfl hval

/-- **`mul` is linear on `values`** for `dur` and `rate`: converting `v·c` gives `values·c` (scalar and array) -/
theorem C06_mul_linear (k : Kind) (hk : k = .dur ∨ k = .rate) {f : Rat} (hf : f ≠ 0) (v : Val Rat) (c : Rat) :
    ∃ vals, convVal ratOps k f v = (some vals, .ok ()) ∧
      convVal ratOps k f (v.map (· * c)) = (some (vals.map (· * c)), .ok ()) := by
  rcases hk with rfl | rfl
  · refine ⟨_, convVal_dur f v, ?_⟩
    rw [convVal_dur, Val.map_map, Val.map_map]
    have : ((fun x : Rat => x * f) ∘ fun x => x * c) = ((fun x => x * c) ∘ fun x => x * f) := by
      funext x; simp [Function.comp]; ring
    rw [this]
  · refine ⟨_, convVal_rate hf v, ?_⟩
    rw [convVal_rate hf, Val.map_map, Val.map_map]
    have : ((fun x : Rat => x / f) ∘ fun x => x * c) = ((fun x => x * c) ∘ fun x => x / f) := by
      funext x; simp [Function.comp]; ring
    rw [this]

/-- `add`/`sub`/`rsub`/`pow` return plain numbers computed from `values`; without `values` they are a TypeError -/
theorem C06_add_on_values {α : Type} (o : NumOps α) (t : TP α) (c : α) :
    (∀ vals, t.values = some vals → addC o t c = .ok (vals.map (fun x => o.add x c)) ∧ subC o t c = .ok (vals.map (fun x => o.sub x c)) ∧
        rsubC o t c = .ok (vals.map (fun x => o.sub c x))) ∧
    (t.values = none → addC o t c = .error .type) := by
  constructor
  · intro vals h; simp [addC, subC, rsubC, onValues, h]
  · intro h; simp [addC, onValues, h]

/-! ### The array branch equals the scalar branch elementwise -/

/-- **Array = scalar.** For every kind, every factor ≠ 0 and every array: the ndarray branch of `update_values`
    succeeds iff the scalar branch succeeds on every element, and then its i-th value is the scalar result
    (incl. the 0 and 1 special cases of the probability kinds). -/
theorem C06_array_eq_scalar {α : Type} {o : NumOps α} (law : LawfulOrd o) (k : Kind) (f : α) (hf : o.beq f o.zero = false)
    (l : List α) :
    ((convVal o k f (.array l)).2 = .ok () ↔ ∀ x ∈ l, ∃ y, convScalar o k f x = .ok y) ∧
    ((convVal o k f (.array l)).2 = .ok () → ∀ x ∈ l, convScalar o k f x = .ok (convElem o k f x)) ∧
    (convVal o k f (.array l)).1 = some (.array (l.map (convElem o k f))) := by
  -- elementwise: valid ↔ scalar ok, with the same value
  have elem : ∀ x, (invalidElem o k x = false → convScalar o k f x = .ok (convElem o k f x)) ∧
      (invalidElem o k x = true → ∀ y, convScalar o k f x ≠ .ok y) := by
    intro x
    have h01 := (law.lt_iff _ _).mp law.zero_lt_one
    have hle01 : o.lt o.one o.zero = false := by
      cases h : o.lt o.one o.zero with
      | false => rfl
      | true => exact absurd h ((law.le_iff_not_lt _ _).mp h01.1)
    have tp_case : (o.lt x o.zero || o.lt o.one x) = false →
        (if o.beq x o.zero then Except.ok o.zero else if o.beq x o.one then .ok o.one
          else if (o.le o.zero x && o.le x o.one) then (if o.beq f o.zero then .ok o.one else .ok (o.tpFormula x f)) else .error Err.value)
        = .ok (if (o.lt o.zero x && o.lt x o.one) then o.tpFormula x f else x) := by
      intro hinv
      simp only [Bool.or_eq_false_iff] at hinv
      by_cases hz : o.beq x o.zero = true
      · have e := (law.beq_iff _ _).mp hz
        have : o.lt o.zero x = false := by
          cases h : o.lt o.zero x with
          | false => rfl
          | true => exact absurd e.symm ((law.lt_iff _ _).mp h).2
        rw [if_pos hz]
        simp only [this, Bool.false_and, Bool.false_eq_true, if_false]
        rw [e]
      · have hz' : o.beq x o.zero = false := by simpa using hz
        by_cases ho : o.beq x o.one = true
        · have e := (law.beq_iff _ _).mp ho
          have : o.lt x o.one = false := by
            cases h : o.lt x o.one with
            | false => rfl
            | true => exact absurd e ((law.lt_iff _ _).mp h).2
          rw [if_neg hz, if_pos ho]
          simp only [this, Bool.and_false, Bool.false_eq_true, if_false]
          rw [e]
        · have ho' : o.beq x o.one = false := by simpa using ho
          have l0 : o.le o.zero x = true := (law.le_iff_not_lt _ _).mpr (by simp [hinv.1])
          have l1 : o.le x o.one = true := (law.le_iff_not_lt _ _).mpr (by simp [hinv.2])
          have s0 : o.lt o.zero x = true := (law.lt_iff _ _).mpr ⟨l0, fun e => hz ((law.beq_iff _ _).mpr e.symm)⟩
          have s1 : o.lt x o.one = true := (law.lt_iff _ _).mpr ⟨l1, fun e => ho ((law.beq_iff _ _).mpr e)⟩
          simp [hz', ho', l0, l1, s0, s1, hf]
    cases k with
    | dur => simp [invalidElem, convScalar, convElem]
    | rate => simp [invalidElem, convScalar, convElem, hf]
    | timeProb =>
      refine ⟨fun h => ?_, fun h y => ?_⟩
      · simpa [convScalar, convElem, invalidElem] using tp_case (by simpa [invalidElem] using h)
      · rw [C06_rejects_prob_outside_unit_interval law (k := .timeProb) rfl f x (by simpa [invalidElem] using h)]; simp
    | beta =>
      refine ⟨fun h => ?_, fun h y => ?_⟩
      · simpa [convScalar, convElem, invalidElem] using tp_case (by simpa [invalidElem] using h)
      · rw [C06_rejects_prob_outside_unit_interval law (k := .beta) rfl f x (by simpa [invalidElem] using h)]; simp
    | rateProb =>
      refine ⟨fun h => ?_, fun h y => ?_⟩
      · simp only [invalidElem] at h
        by_cases hz : o.beq x o.zero = true
        · have e := (law.beq_iff _ _).mp hz
          have : o.lt o.zero x = false := by
            cases h' : o.lt o.zero x with
            | false => rfl
            | true => exact absurd e.symm ((law.lt_iff _ _).mp h').2
          simp only [convScalar, convElem]
          rw [if_pos hz]
          simp only [this, Bool.false_eq_true, if_false]
          rw [e]
        · have hz' : o.beq x o.zero = false := by simpa using hz
          have l0 : o.le o.zero x = true := (law.le_iff_not_lt _ _).mpr (by simp [h])
          have s0 : o.lt o.zero x = true := (law.lt_iff _ _).mpr ⟨l0, fun e => hz ((law.beq_iff _ _).mpr e.symm)⟩
          simp [convScalar, convElem, hz', s0, hf]
      · rw [(C06_rejects_negative_rate law f x (by simpa [invalidElem] using h)).1]; simp
  have hdur : (o.beq f o.zero && decide (k ≠ .dur)) = false := by simp [hf]
  refine ⟨?_, ?_, ?_⟩
  · simp only [convVal, hdur, Bool.false_eq_true, if_false]
    constructor
    · intro h x hx
      by_cases hany : l.any (invalidElem o k) = true
      · simp [hany] at h
      · have : invalidElem o k x = false := by
          cases hi : invalidElem o k x with
          | false => rfl
          | true => exact absurd (List.any_eq_true.mpr ⟨x, hx, hi⟩) hany
        exact ⟨_, (elem x).1 this⟩
    · intro h
      have : l.any (invalidElem o k) = false := by
        cases hany : l.any (invalidElem o k) with
        | false => rfl
        | true =>
          obtain ⟨x, hx, hi⟩ := List.any_eq_true.mp hany
          obtain ⟨y, hy⟩ := h x hx
          exact absurd hy ((elem x).2 hi y)
      simp [this]
  · simp only [convVal, hdur, Bool.false_eq_true, if_false]
    intro h x hx
    by_cases hany : l.any (invalidElem o k) = true
    · simp [hany] at h
    · have : invalidElem o k x = false := by
        cases hi : invalidElem o k x with
        | false => rfl
        | true => exact absurd (List.any_eq_true.mpr ⟨x, hx, hi⟩) hany
      exact (elem x).1 this
  · simp only [convVal, hdur, Bool.false_eq_true, if_false]

/-! ### `time_prob`, `beta`, `rate_prob` over ℝ -/

/-- what `update_values` computes for a probability strictly between 0 and 1 (the model's generic definition at ℝ) -/
theorem C06_timeprob_values {k : Kind} (hk : k.isTimeProb = true) {v f : ℝ} (h0 : 0 < v) (h1 : v < 1) (hf : f ≠ 0) :
    convScalar realOps k f v = .ok (1 - (1 - v) ^ (1 / f)) := by
  rw [convScalar_tp_real hk h0 h1 hf, tp_real_rpow h1]

/-- **Compounding.** The per-step probability compounded over the `factor` steps of the reference period
    returns the original probability: `1 − (1 − values)^factor = p`. -/
theorem C06_timeprob_compound {v f : ℝ} (hv : v < 1) (hf : f ≠ 0) : 1 - (1 - realOps.tpFormula v f) ^ f = v :=
  tp_compound hv hf

/-- **Range.** -/
theorem C06_timeprob_range {v f : ℝ} (h0 : 0 ≤ v) (hv : v < 1) (hf : 0 < f) :
    0 ≤ realOps.tpFormula v f ∧ realOps.tpFormula v f < 1 := tp_range h0 hv hf

/-- **Monotone in dt.** With `factor = (self_dt/dt_parent)·(len unit/len parent)`: a longer parent step gives a larger
    per-step probability. -/
theorem C06_timeprob_mono_dt {v s lu lpu p1 p2 : ℝ} (h0 : 0 ≤ v) (hv : v < 1) (hs : 0 < s) (hlu : 0 < lu) (hlpu : 0 < lpu)
    (hp1 : 0 < p1) (h12 : p1 ≤ p2) :
    realOps.tpFormula v ((s / p1) * (lu / lpu)) ≤ realOps.tpFormula v ((s / p2) * (lu / lpu)) := by
  have hp2 : 0 < p2 := lt_of_lt_of_le hp1 h12
  apply tp_antitone_factor h0 hv (by positivity)
  have : s / p2 ≤ s / p1 := div_le_div_of_nonneg_left hs.le hp1 h12
  exact mul_le_mul_of_nonneg_right this (by positivity)

/-- **Rate to probability** = `1 − exp(−rate·dt)` with the step length expressed in the rate's own unit. -/
theorem C06_rateprob_formula {v s lu lpu p : ℝ} (hv : 0 < v) (hs : 0 < s) (hlu : 0 < lu) (hlpu : 0 < lpu) (hp : 0 < p) :
    convScalar realOps .rateProb ((s / p) * (lu / lpu)) v = .ok (1 - Real.exp (-(v * (p * lpu) / (s * lu)))) := by
  rw [convScalar_rp_real hv (by positivity), rp_real]
  congr 3
  field_simp

theorem C06_rateprob_range {v f : ℝ} (hv : 0 ≤ v) (hf : 0 < f) : 0 ≤ realOps.rpFormula v f ∧ realOps.rpFormula v f < 1 :=
  ⟨rp_nonneg hv hf, rp_lt_one v f⟩

/-- **Round trip of a time probability**: converting by `f` and back by `1/f` is the identity. -/
theorem C06_timeprob_to_roundtrip {v f : ℝ} (hv : v < 1) (hf : f ≠ 0) :
    realOps.tpFormula (realOps.tpFormula v f) (1 / f) = v := tp_roundtrip hv hf

/-- **Round trip, every kind except `rate_prob`** (scalar branch over ℝ; valid values; `f` and then `1/f`). -/
theorem C06_to_roundtrip_partial (k : Kind) (hk : k ≠ .rateProb) {v f : ℝ} (hf : 0 < f)
    (hv : k.isTimeProb = true → 0 ≤ v ∧ v ≤ 1) :
    ∃ x, convScalar realOps k f v = .ok x ∧ convScalar realOps k (1 / f) x = .ok v := by
  have hf0 : f ≠ 0 := ne_of_gt hf
  have hf1 : (1 / f) ≠ 0 := by positivity
  cases k with
  | rateProb => exact absurd rfl hk
  | dur => exact ⟨v * f, by simp [convScalar, realOps], by simp [convScalar, realOps]; field_simp⟩
  | rate =>
    refine ⟨v / f, by simp [convScalar, realOps, NumOps.zero, hf0], ?_⟩
    simp [convScalar, realOps, NumOps.zero, hf0]
  | timeProb | beta =>
    all_goals
      obtain ⟨h0, h1⟩ := hv rfl
      rcases eq_or_lt_of_le h0 with e0 | h0'
      · subst e0; exact ⟨0, by simp [convScalar, realOps, NumOps.zero], by simp [convScalar, realOps, NumOps.zero]⟩
      · rcases eq_or_lt_of_le h1 with e1 | h1'
        · subst e1; exact ⟨1, by simp [convScalar, realOps, NumOps.zero, NumOps.one], by simp [convScalar, realOps, NumOps.zero, NumOps.one]⟩
        · obtain ⟨r0, r1⟩ := tp_range h0'.le h1' hf
          have r0' : 0 < realOps.tpFormula v f := by
            rw [tp_real]
            have hL : Real.log (1 - v) < 0 := Real.log_neg (by linarith) (by linarith)
            have : Real.log (1 - v) / f < 0 := div_neg_of_neg_of_pos hL hf
            have := Real.exp_lt_exp.mpr this
            rw [Real.exp_zero] at this
            linarith
          refine ⟨_, convScalar_tp_real (by rfl) h0' h1' hf0, ?_⟩
          rw [convScalar_tp_real (by rfl) r0' r1 hf1, tp_roundtrip h1' hf0]

/-- **As is, `rate_prob` does not round-trip**: `to` stores the probability `1 − exp(−v/f)` in `v` of an object that
    is still a `rate_prob`; converting back yields a number below 1 whatever the rate was, so every rate ≥ 1 is lost. -/
theorem C06_to_roundtrip_counterexample (v f : ℝ) (hv : 1 ≤ v) (hf : 0 < f) :
    ∃ x y, convScalar realOps .rateProb f v = .ok x ∧ convScalar realOps .rateProb (1 / f) x = .ok y ∧ y ≠ v := by
  have hf0 : f ≠ 0 := ne_of_gt hf
  have hv0 : 0 < v := by linarith
  have hx : 0 < realOps.rpFormula v f := by
    rw [rp_real]
    have : -v / f < 0 := div_neg_of_neg_of_pos (by linarith) hf
    have := Real.exp_lt_exp.mpr this
    rw [Real.exp_zero] at this
    linarith
  refine ⟨_, _, convScalar_rp_real hv0 hf0, convScalar_rp_real hx (by positivity), ?_⟩
  have := rp_lt_one (realOps.rpFormula v f) (1 / f)
  intro h; linarith

/-! ### `as_int`, purity, degenerate dt -/

theorem roundHalfEven_spec (q : Rat) : |((roundHalfEven q : Int) : Rat) - q| ≤ 1 / 2 := by
  have h1 : ((q.floor : Int) : Rat) ≤ q := Int.floor_le q
  have h2 : q < ((q.floor : Int) : Rat) + 1 := Int.lt_floor_add_one q
  unfold roundHalfEven
  simp only
  by_cases ha : q - (q.floor : Rat) < 1 / 2
  · simp only [ha, if_true]; rw [abs_le]; constructor <;> linarith
  · simp only [ha, if_false]
    by_cases hb : 1 / 2 < q - (q.floor : Rat)
    · simp only [hb, if_true]; push_cast; rw [abs_le]; constructor <;> linarith
    · simp only [hb, if_false]
      have he : q - (q.floor : Rat) = 1 / 2 := le_antisymm (not_lt.mp hb) (not_lt.mp ha)
      by_cases hm : q.floor % 2 = 0
      · simp only [hm, if_true]; rw [abs_le]; constructor <;> linarith
      · simp only [hm, if_false]; push_cast; rw [abs_le]; constructor <;> linarith

/-- **`as_int`**: the rounded factor (Python's round-half-even of the exact factor), within 1/2 of it; errors are the same -/
theorem C06_ratio_as_int (u1 u2 : UnitT) (d1 d2 : Option Rat) :
    (∀ f, timeRatio u1 d1 u2 d2 = .ok f → timeRatioInt u1 d1 u2 d2 = .ok (roundHalfEven f) ∧ |((roundHalfEven f : Int) : Rat) - f| ≤ 1 / 2) ∧
    (∀ e, timeRatio u1 d1 u2 d2 = .error e → timeRatioInt u1 d1 u2 d2 = .error e) := by
  constructor
  · intro f h; exact ⟨by simp [timeRatioInt, h], roundHalfEven_spec f⟩
  · intro e h; simp [timeRatioInt, h]

/-- **Purity**: `time_ratio` is a function of its arguments — in any sequence of requests (with or without `as_int`) the
    k-th answer is the answer to the k-th request alone.  (The code is tied to this by the interleaved oracle/correspondence.) -/
theorem C06_ratio_requests_independent (reqs : List RatioReq) (k : Nat) :
    (reqs.map answerRatio)[k]? = (reqs[k]?).map answerRatio := by simp

/-- **dt = 0**: a zero denominator dt is a ZeroDivisionError unless both dt are equal (short-cut 1); a zero numerator dt gives factor 0 -/
theorem C06_ratio_zero_dt {a b : String} {x y : Rat} (ha : unitLen a = some x) (hb : unitLen b = some y) (d : Rat) (hd : d ≠ 0) :
    timeRatio (some a) (some d) (some b) (some 0) = .error .zeroDiv ∧
    timeRatio (some a) (some 0) (some b) (some 0) = .ok (x / y) ∧
    timeRatio (some a) (some 0) (some b) (some d) = .ok 0 := by
  refine ⟨?_, ?_, ?_⟩
  · simp [timeRatio, dtRatio, hd]
  · simp [timeRatio, dtRatio, unitRatio_known ha hb]
  · rw [timeRatio_known ha hb hd]; simp

/-- **factor = 0** (`self_dt = 0`), scalar branch: a duration becomes 0 steps, a rate is a ZeroDivisionError,
    a probability strictly inside (0,1) becomes 1 (NumPy: `exp(-inf) = 0`), a positive `rate_prob` is a ZeroDivisionError -/
theorem C06_zero_factor_behaviour {α : Type} {o : NumOps α} (law : LawfulOrd o) (v : α) :
    convScalar o .rate o.zero v = .error .zeroDiv ∧
    (o.lt o.zero v = true → o.lt v o.one = true → convScalar o .timeProb o.zero v = .ok o.one) ∧
    (o.lt o.zero v = true → convScalar o .rateProb o.zero v = .error .zeroDiv) ∧
    convScalar ratOps .dur 0 (0 : Rat) = .ok 0 ∧ ∀ r : Rat, convScalar ratOps .dur 0 r = .ok 0 := by
  have hz : o.beq o.zero o.zero = true := (law.beq_iff _ _).mpr rfl
  refine ⟨by simp [convScalar, hz], ?_, ?_, by simp [convScalar_dur], fun r => by simp [convScalar_dur]⟩
  · intro h0 h1
    have n0 : o.beq v o.zero = false := by
      cases hb : o.beq v o.zero with
      | false => rfl
      | true => exact absurd ((law.beq_iff _ _).mp hb).symm ((law.lt_iff _ _).mp h0).2
    have n1 : o.beq v o.one = false := by
      cases hb : o.beq v o.one with
      | false => rfl
      | true => exact absurd ((law.beq_iff _ _).mp hb) ((law.lt_iff _ _).mp h1).2
    simp [convScalar, n0, n1, ((law.lt_iff _ _).mp h0).1, ((law.lt_iff _ _).mp h1).1, hz]
  · intro h0
    have n0 : o.beq v o.zero = false := by
      cases hb : o.beq v o.zero with
      | false => rfl
      | true => exact absurd ((law.beq_iff _ _).mp hb).symm ((law.lt_iff _ _).mp h0).2
    simp [convScalar, n0, h0, hz]

/-- **negative dt** is accepted by the code (the property quantifies over positive dt): the factor formula still holds
    (`C06_ratio_formula` has no sign hypothesis), but a time probability then leaves [0,1] — the range theorem needs `0 < factor` -/
theorem C06_negative_factor_out_of_range {v f : ℝ} (h0 : 0 < v) (h1 : v < 1) (hf : f < 0) : realOps.tpFormula v f < 0 := by
  rw [tp_real]
  have hL : Real.log (1 - v) < 0 := Real.log_neg (by linarith) (by linarith)
  have : 0 < Real.log (1 - v) / f := div_pos_of_neg_of_neg hL hf
  have := Real.exp_lt_exp.mpr this
  rw [Real.exp_zero] at this
  linarith

/-! ### `pow` / `rpow`, distributions wrapped in a TimePar -/

/-- `x ** c` and `c ** x` are plain numbers computed elementwise from `values`; without `values` a TypeError -/
theorem C06_pow_on_values {α : Type} (o : NumOps α) (t : TP α) (c : α) :
    (∀ vals, t.values = some vals → powC o t c = .ok (vals.map (fun x => o.powr x c)) ∧ rpowC o t c = .ok (vals.map (fun x => o.powr c x))) ∧
    (t.values = none → powC o t c = .error .type ∧ rpowC o t c = .error .type) := by
  constructor
  · intro vals h; simp [powC, rpowC, onValues, h]
  · intro h; simp [powC, rpowC, onValues, h]

/-- over ℝ the power is the real power -/
example (a b : ℝ) : realOps.powr a b = a ^ b := rfl

/-- **Distribution wrapped in a duration** (`ss.dur(ss.normal(...))`, `ss.lognorm_ex(mean=ss.dur(6))`): every variate is
    multiplied by the factor — a sampled duration in steps × step length = the sampled duration (with `C06_dur_steps`) -/
theorem C06_dist_wrapping_scales (t : TP Rat) (hk : t.kind = .dur) {u pu : String} {lu lpu s p : Rat}
    (hu : t.unit = some u) (hpu : t.parentUnit = some pu) (hs : t.selfDt = some s) (hp : t.parentDt = some p)
    (hlu : unitLen u = some lu) (hlpu : unitLen pu = some lpu) (hp0 : p ≠ 0) (draws : List Rat) :
    (scaleDraws ratOps t draws).2 = .ok () ∧
    (scaleDraws ratOps t draws).1.values = some (.array (draws.map (· * ((s / p) * (lu / lpu))))) := by
  unfold scaleDraws
  rw [updateCached_dur (t := { t with v := .array draws }) hk hu hpu hs hp hlu hlpu hp0 true]
  exact ⟨rfl, rfl⟩

/-! ### The distribution bridge: integer variates, converted parameters -/

/-- the dtype of the variates carries no information: integer variates are converted exactly like the same numbers in the carrier -/
theorem C06_draws_dtype_independent {α : Type} (o : NumOps α) (t : TP α) (l : List Int) :
    postprocess o t (.ints l) = postprocess o t (.floats (l.map (fun (i : Int) => o.ofRat (i : Rat)))) := rfl

/-- **Integer-valued durations drawn by a distribution** (`ss.constant(v=ss.dur(10))`, `ss.randint(high=ss.dur(45), allow_time=True)`,
    a callable returning integers): every variate `i` becomes exactly `i · factor` steps, and steps × step length = `i` in its own unit -/
theorem C06_int_draws_dur_steps (t : TP Rat) (hk : t.kind = .dur) {u pu : String} {lu lpu s p : Rat}
    (hu : t.unit = some u) (hpu : t.parentUnit = some pu) (hs : t.selfDt = some s) (hp : t.parentDt = some p)
    (hlu : unitLen u = some lu) (hlpu : unitLen pu = some lpu) (hp0 : p ≠ 0) (l : List Int) :
    (postprocess ratOps t (.ints l)).2 = .ok () ∧
    (postprocess ratOps t (.ints l)).1.values = some (.array (l.map (fun (i : Int) => (i : Rat) * ((s / p) * (lu / lpu))))) ∧
    ∀ i : Int, ((i : Rat) * ((s / p) * (lu / lpu))) * (p * lpu) = (i : Rat) * (s * lu) := by
  obtain ⟨h1, h2⟩ := C06_dist_wrapping_scales t hk hu hpu hs hp hlu hlpu hp0 (l.map (fun (i : Int) => (i : Rat)))
  refine ⟨?_, ?_, fun i => ?_⟩
  · simpa [postprocess, Draws.toCarrier, ratOps] using h1
  · have : (postprocess ratOps t (.ints l)) = scaleDraws ratOps t (l.map (fun (i : Int) => (i : Rat))) := by
      simp [postprocess, Draws.toCarrier, ratOps]
    rw [this, h2, List.map_map]; rfl
  · exact (C06_dur_steps t hk hu hpu hs hp hlu hlpu hp0 true).2.2 _

/-- **Integer-valued rates drawn by a distribution**: every variate `i` becomes exactly `i / factor` per step, and
    per-step rate / step length = `i` in its own unit -/
theorem C06_int_draws_rate_steps (t : TP Rat) (hk : t.kind = .rate) {u pu : String} {lu lpu s p : Rat}
    (hu : t.unit = some u) (hpu : t.parentUnit = some pu) (hs : t.selfDt = some s) (hp : t.parentDt = some p)
    (hlu : unitLen u = some lu) (hlpu : unitLen pu = some lpu) (hp0 : p ≠ 0) (hs0 : s ≠ 0) (l : List Int) :
    (postprocess ratOps t (.ints l)).2 = .ok () ∧
    (postprocess ratOps t (.ints l)).1.values = some (.array (l.map (fun (i : Int) => (i : Rat) / ((s / p) * (lu / lpu))))) ∧
    ∀ i : Int, ((i : Rat) / ((s / p) * (lu / lpu))) / (p * lpu) = (i : Rat) / (s * lu) := by
  have hpp : (postprocess ratOps t (.ints l)) = updateCached ratOps { t with v := .array (l.map (fun (i : Int) => (i : Rat))) } true true := by
    simp [postprocess, scaleDraws, Draws.toCarrier, ratOps]
  rw [hpp, updateCached_rate (t := { t with v := .array (l.map (fun (i : Int) => (i : Rat))) }) hk hu hpu hs hp hlu hlpu hp0 hs0 true]
  refine ⟨rfl, ?_, fun i => ?_⟩
  · simp only [Val.map, List.map_map]; rfl
  · exact (C06_rate_steps t hk hu hpu hs hp hlu hlpu hp0 hs0 true).2.2 _

/-- **The parameter of `poisson` / `bernoulli`** is converted by the TimePar's own `update_values` (scalar or array branch): the
    bridge adds nothing to, and takes nothing from, the conversion the other theorems describe -/
theorem C06_param_is_converted {α : Type} (o : NumOps α) (t : TP α) (pv : Val α) :
    convertParam o t pv = updateCached o { t with v := pv } true true ∧
    (∀ l, convertParam o t (.array l) = scaleDraws o t l) := ⟨rfl, fun _ => rfl⟩

/-- **What the theorems above rest on** (sensitivity, not today's code): were the converted variates cast back to the dtype of
    the unscaled ones, 10 days drawn as an integer in a weekly module would be 1 step = 7 days; as converted by the code it is
    10/7 steps = 10 days.  Kernel-checked. -/
theorem C06_keep_dtype_counterexample :
    (mk (α := Rat) .dur (.scalar 0) (some "day") (some "week") (some 1) (some 1)).toOption.map (fun t =>
      ((postprocess ratOps t (.ints [10])).1.values, (postprocessKeepDtype t (.ints [10])).1.values,
       decide ((10 / 7 : Rat) * 7 = 10), decide ((1 : Rat) * 7 = 10))) =
    some (some (.array [10 / 7]), some (.array [1]), true, false) := by decide +kernel

-- non-vacuity of the hypotheses of the two integer-variate theorems: a daily duration / rate in a weekly module
example : ∃ t : TP Rat, t.kind = .dur ∧ t.unit = some "day" ∧ t.parentUnit = some "week" ∧ t.selfDt = some 1 ∧ t.parentDt = some 1 ∧
    (postprocess ratOps t (.ints [10, 45])).1.values = some (.array [10 / 7, 45 / 7]) :=
  ⟨{ kind := .dur, v := .scalar 0, unit := some "day", parentUnit := some "week", parentDt := some 1, selfDt := some 1, factor := none,
     values := none, initialized := false }, rfl, rfl, rfl, rfl, rfl, by decide +kernel⟩
example : ∃ t : TP Rat, t.kind = .rate ∧ (1 : Rat) ≠ 0 ∧
    (postprocess ratOps t (.ints [10])).1.values = some (.array [70]) :=
  ⟨{ kind := .rate, v := .scalar 0, unit := some "day", parentUnit := some "week", parentDt := some 1, selfDt := some 1, factor := none,
     values := none, initialized := false }, rfl, by decide, by decide +kernel⟩

/-! ### Non-vacuity -/

/-- `ss.beta(0.1)` (per year) in a module that steps in days: year → day is defined, positive, and is the ratio of the lengths -/
example : ∃ ly ld, unitLen "year" = some ly ∧ unitLen "day" = some ld ∧
    timeRatio (some "year") (some 1) (some "day") (some 1) = .ok ((1 / 1) * (ly / ld)) ∧ 0 < ly / ld := by
  cases hy : unitLen "year" with
  | none => exact absurd hy (by decide +kernel)
  | some ly =>
    cases hd : unitLen "day" with
    | none => exact absurd hd (by decide +kernel)
    | some ld => exact ⟨ly, ld, rfl, rfl, timeRatio_known hy hd one_ne_zero, div_pos (unitLen_pos hy) (unitLen_pos hd)⟩

/-- hypotheses of `C06_dur_steps`/`C06_init_dur` are met by `ss.dur(10, 'week')` in a (`day`, dt = 1/2) parent -/
example : (unitLen "week").isSome = true ∧ (unitLen "day").isSome = true ∧
    canonUnit (some "week") = .ok (some "week") ∧ canonUnit (some "day") = .ok (some "day") := by decide +kernel

/-- hypotheses of `C06_to_roundtrip`: a weekly duration converted to (month, dt = 2) and back (kernel-evaluated on the model) -/
example : ((mk (α := Rat) .dur (.scalar 10) (some "week") none none (some 1)).toOption.bind fun t =>
    (convertTo ratOps t (some "month") (some 2)).toOption.bind fun y =>
    (convertTo ratOps y (some "week") (some 1)).toOption.map fun z =>
      (match y.v, z.v with | .scalar a, .scalar b => decide (a ≠ 10 ∧ b = 10) | _, _ => false)) = some true := by decide +kernel

/-- the probability theorems are not vacuous: p = 1/10, factor = 365 -/
example : (0:ℝ) ≤ 1/10 ∧ (1/10 : ℝ) < 1 ∧ (0:ℝ) < 365 := by norm_num

/-- lawful comparisons exist (ℚ and ℝ) -/
example : LawfulOrd ratOps ∧ LawfulOrd realOps := ⟨ratOps_lawful, realOps_lawful⟩

/-! ### Round 3: the rate-derived probability over dt; array identity -/

/-- **Rate-derived probability, monotone in dt**: a longer parent step gives a larger per-step probability. -/
theorem C06_rateprob_mono_dt {v s lu lpu p1 p2 : ℝ} (h0 : 0 ≤ v) (hs : 0 < s) (hlu : 0 < lu) (hlpu : 0 < lpu)
    (hp1 : 0 < p1) (h12 : p1 ≤ p2) :
    realOps.rpFormula v ((s / p1) * (lu / lpu)) ≤ realOps.rpFormula v ((s / p2) * (lu / lpu)) := by
  have hp2 : 0 < p2 := lt_of_lt_of_le hp1 h12
  rw [rp_real, rp_real]
  have hf : (s / p2) * (lu / lpu) ≤ (s / p1) * (lu / lpu) :=
    mul_le_mul_of_nonneg_right (div_le_div_of_nonneg_left hs.le hp1 h12) (by positivity)
  have hpos2 : 0 < (s / p2) * (lu / lpu) := by positivity
  have h3 : v / ((s / p1) * (lu / lpu)) ≤ v / ((s / p2) * (lu / lpu)) := div_le_div_of_nonneg_left h0 hpos2 hf
  have h5 : Real.exp (-v / ((s / p2) * (lu / lpu))) ≤ Real.exp (-v / ((s / p1) * (lu / lpu))) := by
    apply Real.exp_le_exp.mpr
    rw [neg_div, neg_div]
    linarith
  linarith

/-- **…strictly, and never certain**: for a positive rate a strictly longer step gives a strictly larger probability, still below 1
    (the conversion cannot saturate at 1 for any finite rate and step). -/
theorem C06_rateprob_strict_mono_dt {v s lu lpu p1 p2 : ℝ} (h0 : 0 < v) (hs : 0 < s) (hlu : 0 < lu) (hlpu : 0 < lpu)
    (hp1 : 0 < p1) (h12 : p1 < p2) :
    realOps.rpFormula v ((s / p1) * (lu / lpu)) < realOps.rpFormula v ((s / p2) * (lu / lpu)) ∧
    realOps.rpFormula v ((s / p2) * (lu / lpu)) < 1 := by
  have hp2 : 0 < p2 := lt_trans hp1 h12
  refine ⟨?_, rp_lt_one _ _⟩
  rw [rp_real, rp_real]
  have hf : (s / p2) * (lu / lpu) < (s / p1) * (lu / lpu) :=
    mul_lt_mul_of_pos_right (div_lt_div_of_pos_left hs hp1 h12) (by positivity)
  have hpos2 : 0 < (s / p2) * (lu / lpu) := by positivity
  have h3 : v / ((s / p1) * (lu / lpu)) < v / ((s / p2) * (lu / lpu)) := div_lt_div_of_pos_left h0 hpos2 hf
  have h5 : Real.exp (-v / ((s / p2) * (lu / lpu))) < Real.exp (-v / ((s / p1) * (lu / lpu))) := by
    apply Real.exp_lt_exp.mpr
    rw [neg_div, neg_div]
    linarith
  linarith

/-- `update_cached` reads only the class, the value and the four unit / dt fields (through `update_factor`): what was cached before
    (factor, values) and whether the object was initialised play no part; it never touches `v` or the recorded parent. -/
theorem updateCached_congr {α : Type} (o : NumOps α) (a1 a2 : TP α) (hk : a1.kind = a2.kind) (hv : a1.v = a2.v) (f : Rat)
    (hf1 : updateFactor a1 = .ok f) (hf2 : updateFactor a2 = .ok f) (uv die : Bool) :
    (updateCached o a1 uv die).1.factor = some f ∧ (updateCached o a2 uv die).1.factor = some f ∧
      (uv = true → ∀ vals, (convVal o a1.kind (o.ofRat f) a1.v).1 = some vals →
        (updateCached o a1 uv die).1.values = some vals ∧ (updateCached o a2 uv die).1.values = some vals) ∧
      (updateCached o a1 uv die).2 = (updateCached o a2 uv die).2 ∧
      (updateCached o a1 uv die).1.parentUnit = a1.parentUnit ∧ (updateCached o a1 uv die).1.parentDt = a1.parentDt ∧
      (updateCached o a1 uv die).1.v = a1.v := by
  have e2 : convVal o a2.kind (o.ofRat f) a2.v = convVal o a1.kind (o.ofRat f) a1.v := by rw [hk, hv]
  simp only [updateCached, hf1, hf2, e2]
  cases uv with
  | false => simp
  | true =>
    rcases hc : convVal o a1.kind (o.ofRat f) a1.v with ⟨vals, r⟩
    cases vals <;> simp

/-- **Re-linking forgets the previous parent.** Two parameters that agree on what they ARE (class, value, own unit, own dt) —
    whatever parent each of them was given in the constructor or linked to before, whatever factor / values they cached —
    end up, once linked to a parent `(pu, d)` the factor to which is defined, with that parent recorded, with the factor
    `time_ratio(unit, self_dt, pu, d)`, with the same values (whenever `update_values` assigns any) and with the same outcome.
    (With `C06_dur_steps` / `C06_rate_steps` / the probability formulas, which read the recorded parent, this is what makes the
    per-step identities hold "for all parent unit/dt combinations" for a parameter that is linked again.) -/
theorem C06_relink_depends_on_last_parent {α : Type} (o : NumOps α) (t1 t2 : TP α) (hk : t1.kind = t2.kind) (hv : t1.v = t2.v)
    (hu : t1.unit = t2.unit) (hs : t1.selfDt = t2.selfDt) (pu : String) (d f : Rat)
    (hf : timeRatio (orElse t1.unit (some pu)) t1.selfDt (some pu) (some d) = .ok f) (uv die : Bool) :
    let r1 := updateCached o (inherit t1 (some pu) (some d)) uv die
    let r2 := updateCached o (inherit t2 (some pu) (some d)) uv die
    r1.1.parentUnit = some pu ∧ r1.1.parentDt = some d ∧ r1.1.factor = some f ∧ r2.1.factor = some f ∧
      (uv = true → ∀ vals, (convVal o t1.kind (o.ofRat f) t1.v).1 = some vals → r1.1.values = some vals ∧ r2.1.values = some vals) ∧
      r1.2 = r2.2 ∧ r1.1.v = t1.v := by
  intro r1 r2
  have hf1 : updateFactor (inherit t1 (some pu) (some d)) = .ok f := by
    simpa [updateFactor, inherit, orElse] using hf
  have hf2 : updateFactor (inherit t2 (some pu) (some d)) = .ok f := by
    rw [hu, hs] at hf; simpa [updateFactor, inherit, orElse] using hf
  obtain ⟨h1, h1', h2, h3, h4, h5, h6⟩ := updateCached_congr o _ _ (show (inherit t1 (some pu) (some d)).kind = (inherit t2 (some pu) (some d)).kind from hk)
    (show (inherit t1 (some pu) (some d)).v = (inherit t2 (some pu) (some d)).v from hv) f hf1 hf2 uv die
  refine ⟨?_, ?_, h1, h1', h2, h3, h6⟩
  · rw [show r1 = updateCached o (inherit t1 (some pu) (some d)) uv die from rfl, h4]; simp [inherit, orElse]
  · rw [show r1 = updateCached o (inherit t1 (some pu) (some d)) uv die from rfl, h5]; simp [inherit, orElse]

example : timeRatio (orElse (some "week") (some "day")) (some 1) (some "day") (some 2) = .ok (7/2) := by decide +kernel
-- non-vacuity: a duration first linked to (day, 1/2) [14 steps], then to (day, 2): 7/2 steps
example : (mk (α := Rat) .dur (.scalar 7) (some "day") none none (some 1)).toOption.map (fun t =>
    ((init ratOps t false (some "day") (some (1/2)) none true true).1.values,
     (init ratOps (init ratOps t false (some "day") (some (1/2)) none true true).1 false (some "day") (some 2) none true true).1.values)) =
    some (some (.scalar 14), some (.scalar (7/2))) := by decide +kernel

theorem step_append {α : Type} (s : Store α) (ob : ARef) (op : AOp α) : ∃ t, (op.step s ob).1 = s ++ t := by
  cases op <;> exact ⟨_, rfl⟩

theorem step_wf {α : Type} (s : Store α) (ob : ARef) (op : AOp α) (h : ARef.wf (s, ob)) : ARef.wf (op.step s ob) := by
  cases op <;> simp [AOp.step, ARef.wf] at * <;> omega

theorem runOps_append {α : Type} (a b : List (AOp α)) (x : Store α × ARef) : runOps (a ++ b) x = runOps b (runOps a x) := by
  induction a generalizing x with
  | nil => rfl
  | cons op a ih => simp [runOps, ih]

theorem runOps_wf {α : Type} (ops : List (AOp α)) (x : Store α × ARef) (h : ARef.wf x) : ARef.wf (runOps ops x) := by
  induction ops generalizing x with
  | nil => exact h
  | cons op ops ih => exact ih _ (step_wf x.1 x.2 op h)

/-- **The store is append-only**: whatever the history of calls (links, re-links, new arrays, conversions, arithmetic, in any
    order and number), arrays are only ever allocated. -/
theorem C06_store_append_only {α : Type} (ops : List (AOp α)) (x : Store α × ARef) : ∃ t, (runOps ops x).1 = x.1 ++ t := by
  induction ops generalizing x with
  | nil => exact ⟨[], by simp [runOps]⟩
  | cons op ops ih =>
    obtain ⟨t1, h1⟩ := step_append x.1 x.2 op
    obtain ⟨t2, h2⟩ := ih (op.step x.1 x.2)
    exact ⟨t1 ++ t2, by simp [runOps, h2, h1, List.append_assoc]⟩

/-- **No array that exists is ever overwritten**: the caller's input array, the `v` and `values` of every object left behind
    in the chain, a `values` array somebody still holds — each keeps its contents through any further history. -/
theorem C06_buffers_never_overwritten {α : Type} (ops : List (AOp α)) (x : Store α × ARef) (i : Nat) (hi : i < x.1.length) :
    readBuf (runOps ops x).1 i = readBuf x.1 i := by
  obtain ⟨t, h⟩ := C06_store_append_only ops x
  simp [readBuf, h, List.getElem?_append_left hi]

/-- **Linking never changes the quantity in its own unit**: any number of `init` / `set(parent_…)` / `update_cached` calls leaves
    `v` the same array with the same contents. -/
theorem C06_links_preserve_v {α : Type} (ops : List (AOp α)) (hall : ∀ op ∈ ops, op.isUpd = true) (x : Store α × ARef)
    (hwf : ARef.wf x) :
    (runOps ops x).2.vId = x.2.vId ∧ readBuf (runOps ops x).1 (runOps ops x).2.vId = readBuf x.1 x.2.vId := by
  have hid : (runOps ops x).2.vId = x.2.vId := by
    induction ops generalizing x with
    | nil => rfl
    | cons op ops ih =>
      have hop := hall op (by simp)
      have ht := ih (fun o ho => hall o (by simp [ho])) (op.step x.1 x.2) (step_wf x.1 x.2 op hwf)
      cases op with
      | upd f => simpa [runOps, AOp.step] using ht
      | setV l f => simp [AOp.isUpd] at hop
      | conv f => simp [AOp.isUpd] at hop
      | arith g f => simp [AOp.isUpd] at hop
  exact ⟨hid, by rw [hid]; exact C06_buffers_never_overwritten ops x _ hwf⟩

/-- **The values depend on the present, not on the history**: after any number of links, one more update with the conversion `f`
    leaves `values` = `f` applied elementwise to the ORIGINAL `v`, in an array that is not `v`. -/
theorem C06_values_history_independent {α : Type} (ops : List (AOp α)) (hall : ∀ op ∈ ops, op.isUpd = true) (f : α → α)
    (x : Store α × ARef) (hwf : ARef.wf x) :
    ∃ j, (runOps (ops ++ [.upd f]) x).2.valuesId = some j ∧ j ≠ (runOps (ops ++ [.upd f]) x).2.vId ∧
      readBuf (runOps (ops ++ [.upd f]) x).1 j = (readBuf x.1 x.2.vId).map f ∧
      readBuf (runOps (ops ++ [.upd f]) x).1 (runOps (ops ++ [.upd f]) x).2.vId = readBuf x.1 x.2.vId := by
  obtain ⟨hid, hv⟩ := C06_links_preserve_v ops hall x hwf
  have hw := runOps_wf ops x hwf
  rw [runOps_append]
  generalize runOps ops x = y at *
  refine ⟨y.1.length, by simp [runOps, AOp.step], ?_, ?_, ?_⟩
  · simp only [runOps, AOp.step]; exact Nat.ne_of_gt hw
  · simp only [runOps, AOp.step, readBuf, List.getElem?_concat_length, Option.getD_some] at *
    rw [hv]
  · simp only [runOps, AOp.step]
    simp only [readBuf, List.getElem?_append_left hw] at *
    exact hv

/-- **Conversion, then any links**: the converted object's `v` is the conversion `g` of the receiver's `v` and stays so through
    every later link; its `values` are `f ∘ g` of it, in an array of their own (the `v is values` aliasing that `to()` leaves
    behind ends at the first update); the receiver's `v` array is untouched. -/
theorem C06_conversion_then_links {α : Type} (g f : α → α) (ops : List (AOp α)) (hall : ∀ op ∈ ops, op.isUpd = true)
    (x : Store α × ARef) (hwf : ARef.wf x) :
    let y := runOps (.conv g :: (ops ++ [.upd f])) x
    (AOp.step x.1 x.2 (.conv g)).2.valuesId = some (AOp.step x.1 x.2 (.conv g)).2.vId ∧
    readBuf y.1 y.2.vId = (readBuf x.1 x.2.vId).map g ∧
    (∃ j, y.2.valuesId = some j ∧ j ≠ y.2.vId ∧ readBuf y.1 j = ((readBuf x.1 x.2.vId).map g).map f) ∧
    readBuf y.1 x.2.vId = readBuf x.1 x.2.vId := by
  intro y
  have hwf1 : ARef.wf (AOp.step x.1 x.2 (.conv g)) := step_wf x.1 x.2 _ hwf
  have hc : readBuf (AOp.step x.1 x.2 (.conv g)).1 (AOp.step x.1 x.2 (.conv g)).2.vId = (readBuf x.1 x.2.vId).map g := by
    simp [AOp.step, readBuf]
  obtain ⟨j, h1, h2, h3, h4⟩ := C06_values_history_independent ops hall f _ hwf1
  refine ⟨rfl, ?_, ⟨j, h1, h2, ?_⟩, ?_⟩
  · show readBuf (runOps (ops ++ [.upd f]) (AOp.step x.1 x.2 (.conv g))).1 (runOps (ops ++ [.upd f]) (AOp.step x.1 x.2 (.conv g))).2.vId = _
    rw [h4, hc]
  · show readBuf (runOps (ops ++ [.upd f]) (AOp.step x.1 x.2 (.conv g))).1 j = _
    rw [h3, hc]
  · exact C06_buffers_never_overwritten (.conv g :: (ops ++ [.upd f])) x _ hwf

/-- the store-level update writes what the functional model's array branch computes (`convVal`, non-zero factor) -/
theorem C06_update_values_array {α : Type} (o : NumOps α) (k : Kind) (f0 : α) (hf : o.beq f0 o.zero = false)
    (s : Store α) (ob : ARef) :
    (convVal o k f0 (.array (readBuf s ob.vId))).1 =
      some (.array (readBuf (AOp.step s ob (.upd (convElem o k f0))).1 s.length)) ∧
    (AOp.step s ob (.upd (convElem o k f0))).2.valuesId = some s.length := by
  simp [convVal, hf, AOp.step, readBuf]

/-- **What the theorems above rest on** (sensitivity, not today's code): were `update_values` to write into the existing
    `values` array, the object returned by `to()` — whose `v` IS that array — would have its own-unit quantity rescaled by
    the next link.  Kernel-checked witness: `[1, 2]` converted (factor 1), then linked with factor 2. -/
theorem C06_inplace_update_counterexample :
    let x := AOp.step (newArr [1, 2]).1 (newArr [1, 2]).2 (.conv (fun t : Nat => t))
    readBuf (updInPlace x.1 x.2 (fun t => 2 * t)).1 x.2.vId ≠ readBuf x.1 x.2.vId ∧
    readBuf (AOp.step x.1 x.2 (.upd (fun t => 2 * t))).1 x.2.vId = readBuf x.1 x.2.vId := by decide

-- non-vacuity: a well-formed start, a history made of links only, and the general history of the correspondence
example : ARef.wf (newArr [(3 : Rat), 5]) ∧ (∀ op ∈ [AOp.upd (fun t : Rat => t * 7), .upd (fun t => t / 2)], op.isUpd = true) := by
  refine ⟨by decide, ?_⟩
  intro op h
  simp at h
  rcases h with rfl | rfl <;> rfl
example : (runOps [.upd (· * 7), .conv (· * 7), .upd (· * 2), .arith (· * 3) (· * 2), .setV [1] (· * 2)] (newArr [(3 : Nat), 5])) =
    ([[3, 5], [21, 35], [21, 35], [42, 70], [63, 105], [126, 210], [1], [2]], { vId := 6, valuesId := some 7 }) := by decide
example : (0:ℝ) < 52 ∧ (0:ℝ) < 1 ∧ (1:ℝ) < 7 := by norm_num

end StarsimModel.C06
