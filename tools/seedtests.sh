#!/bin/bash
# usage: seedtests.sh <seed id>   -> runs the pinned test suite with the seeded patch applied, in a scratch worktree
id=$1
wt=/tmp/seedtest_$id
git -C /repo worktree add --detach $wt HEAD -q 2>/dev/null
if git -C $wt apply --whitespace=nowarn /verif/seeded/$id/patch.diff 2>/dev/null; then
  (cd $wt && PYTHONPATH=$wt /venv/bin/python -m pytest -q -p no:cacheprovider --timeout=900 tests 2>&1 | tail -1) > /verif/seeded/$id/tests_with_patch.txt
else
  echo "patch does not apply" > /verif/seeded/$id/tests_with_patch.txt
fi
git -C /repo worktree remove --force $wt
echo "$id: $(cat /verif/seeded/$id/tests_with_patch.txt)"
