#!/usr/bin/env python3
"""
Evaluate one seeded change:  tools/seed_eval.py C05 a [/tmp/seed_C05_out/a] [--all] [--tests] [--wt]

 --wt : instead of patching /repo itself, apply the change in the private scratch worktree /tmp/wt_seedeval and point the
        check at it (STARSIM_REPO) — used while other sessions are running checks against /repo; the final confirmation
        runs patch /repo as below.

 1. copies patch.diff / demo.py / README.md into seeded/<Cxx><a>/
 2. demo on the clean /repo must exit 0
 3. `git -C /repo apply patch.diff`; demo must exit non-zero; ./check Cxx (quick) is run (and every other check with --all)
 4. `git -C /repo checkout -- .` (always), check Cxx again must be quiet
 5. with --tests: the pinned test suite is run with the patch in a scratch worktree (removed afterwards)
 6. writes seeded/<id>/meta.json
"""
import json, os, subprocess, sys, shutil, time
here = os.path.dirname(os.path.dirname(os.path.abspath(__file__)))
prop, tag = sys.argv[1], sys.argv[2]
src = sys.argv[3] if len(sys.argv) > 3 and not sys.argv[3].startswith('--') else f'/tmp/seed_{prop}_out/{tag}'
do_all = '--all' in sys.argv; do_tests = '--tests' in sys.argv; use_wt = '--wt' in sys.argv
TARGET = f'/tmp/wt_seedeval_{prop}_{os.getpid()}' if use_wt else '/repo'
sid = f'{prop}{tag}'
dst = os.path.join(here, 'seeded', sid)
os.makedirs(dst, exist_ok=True)
for f in ('patch.diff', 'demo.py', 'README.md'):
    if os.path.exists(os.path.join(src, f)) and os.path.abspath(src) != os.path.abspath(dst): shutil.copy(os.path.join(src, f), os.path.join(dst, f))
patch = os.path.join(dst, 'patch.diff')

def sh(cmd, **kw):
    p = subprocess.run(cmd, shell=True, capture_output=True, text=True, **kw)
    return p.returncode, p.stdout + p.stderr

def demo(env_repo):
    rc, out = sh(f'cd /tmp && PYTHONPATH={env_repo} /venv/bin/python -W ignore {dst}/demo.py', timeout=1800)
    return rc, out[-600:]

def check(p, patched=True):
    t0 = time.time()
    env = dict(os.environ)
    if use_wt and patched: env['STARSIM_REPO'] = TARGET
    rc, out = sh(f'./check {p} --tier quick', cwd=here, timeout=3600, env=env)
    lines = [l for l in out.split('\n') if l.startswith('VIOLATION')][:8] + [l for l in out.split('\n') if l.startswith('  ')][:8]
    return dict(exit=rc, wall_s=round(time.time() - t0), violations=[l[:400] for l in lines if l.startswith('VIOLATION')],
                detail=[l[:400] for l in lines if l.startswith('  ')][:4],
                no_failing_input=any('no-failing-input-found' in l for l in lines))

meta = dict(id=sid, property=prop, source=src, repo_head=sh('git -C /repo rev-parse --short HEAD')[1].strip())
if use_wt:
    if not os.path.exists(TARGET): sh(f'git -C /repo worktree add --detach {TARGET} HEAD -q')
    sh(f'git -C {TARGET} checkout -q --detach $(git -C /repo rev-parse HEAD) && git -C {TARGET} checkout -- .')
assert sh(f'git -C {TARGET} status --short')[1].strip() == '', f'{TARGET} not clean'
rc0, out0 = demo('/repo'); meta['demo_clean_exit'] = rc0
rc, out = sh(f'git -C {TARGET} apply --whitespace=nowarn {patch}')
if rc != 0:
    rc, out = sh(f'git -C {TARGET} apply --3way --whitespace=nowarn {patch}')
meta['apply'] = 'ok' if rc == 0 else out[-300:]
try:
    if rc == 0:
        rc1, out1 = demo(TARGET); meta['demo_patched_exit'] = rc1; meta['demo_patched_tail'] = out1[-300:]
        meta['checks'] = {prop: check(prop)}
        if do_all:
            man = json.load(open(os.path.join(here, 'MANIFEST.json')))
            for c in man['checks']:
                if c['property_id'] != prop:
                    meta['checks'][c['property_id']] = check(c['property_id'])
finally:
    sh(f'git -C {TARGET} checkout -- . && git -C {TARGET} reset -q && git -C {TARGET} checkout -- .')
    assert sh(f'git -C {TARGET} status --short')[1].strip() == '', f'{TARGET} not restored'
meta['check_after_restore'] = check(prop, patched=False)['exit']
meta['mode'] = 'scratch worktree via STARSIM_REPO' if use_wt else 'patched /repo'
if use_wt:
    sh(f'git -C /repo worktree remove --force {TARGET}')

if do_tests:
    wt = f'/tmp/seedtest_{sid}'
    sh(f'git -C /repo worktree add --detach {wt} HEAD -q && git -C {wt} apply --whitespace=nowarn {patch}')
    rc, out = sh(f'cd {wt} && PYTHONPATH={wt} /venv/bin/python -m pytest -q -p no:cacheprovider --timeout=900 tests 2>&1 | tail -3', timeout=3600)
    meta['tests_with_patch'] = out.strip().split('\n')[-1]
    sh(f'git -C /repo worktree remove --force {wt}')
caught = meta.get('checks', {}).get(prop, {}).get('exit') == 1
meta['caught_by_own_check'] = caught
meta['caught_by'] = sorted(p for p, r in meta.get('checks', {}).items() if r['exit'] == 1)
readme = open(os.path.join(dst, 'README.md')).read() if os.path.exists(os.path.join(dst, 'README.md')) else ''
old = {}
if os.path.exists(os.path.join(dst, 'meta.json')):
    try: old = json.load(open(os.path.join(dst, 'meta.json')))
    except Exception: old = {}
for k in ('what', 'needs', 'caught_how', 'tests_with_patch', 'first_pass'):
    if k in old and k not in meta: meta[k] = old[k]
meta.setdefault('needs', 'see README.md')
meta['ran'] = f'tools/seed_eval.py {prop} {tag}' + (' --all' if do_all else '') + (' --tests' if do_tests else '')
json.dump(meta, open(os.path.join(dst, 'meta.json'), 'w'), indent=1)
print(json.dumps({k: meta[k] for k in ('id', 'apply', 'demo_clean_exit', 'demo_patched_exit', 'caught_by_own_check', 'caught_by', 'check_after_restore') if k in meta}))
c = meta.get('checks', {}).get(prop, {})
for l in c.get('violations', [])[:3] + c.get('detail', [])[:3]: print('   ', l[:300])
