#!/bin/bash
# Run the thorough tier of the given checks on the unchanged tree and print every run that is not quiet.
#   tools/thorough.sh "C01 C02"        (intended for `vp run -- tools/thorough.sh ...`)
cd "$(dirname "$0")/.." || exit 2
[ -d lean/.lake ] || ./check setup > /dev/null 2>&1
bad=0
for p in $1; do
  t0=$(date +%s); out=$(./check $p --tier thorough 2>&1); rc=$?
  echo "$p thorough exit=$rc wall=$(( $(date +%s) - t0 ))s $(echo "$out" | tail -1 | cut -c1-200)"
  if [ $rc -ne 0 ]; then bad=$((bad+1)); echo "$out" | grep -v "^KNOWN-FINDING" | tail -8 | cut -c1-600; fi
done
echo "thorough done: $bad not quiet"
