#!/usr/bin/env python3
""" Run every claimed check (quick tier) on /repo, report exit codes / wall time, validate evidence and MANIFEST. """
import json, os, subprocess, sys, time
here = os.path.dirname(os.path.dirname(os.path.abspath(__file__)))
man = json.load(open(os.path.join(here, 'MANIFEST.json')))
only = sys.argv[1:]
seed = os.environ.get('VERIF_SEED', '0')
rows = []
for c in man['checks']:
    pid = c['property_id']
    if only and pid not in only: continue
    t0 = time.time()
    p = subprocess.run(c['quick_cmd'], shell=True, cwd=here, capture_output=True, text=True, env=dict(os.environ, VERIF_SEED=seed))
    dt = time.time() - t0
    viol = [l for l in p.stdout.split('\n') if l.startswith('VIOLATION')]
    known = sum(1 for l in p.stdout.split('\n') if l.startswith('KNOWN-FINDING'))
    ev_ok = '?'
    try:
        r = subprocess.run(['/opt/veriftools/pyvenv/bin/python', '-c', f"import json,jsonschema; jsonschema.validate(json.load(open('{here}/evidence/{pid}.json')), json.load(open('/root/.vp/EVIDENCE.schema.json'))); e=json.load(open('{here}/evidence/{pid}.json')); c=e['coverage']; assert c['discharged']==c['obligations']>=1, (c['discharged'],c['obligations']); print('ok')"], capture_output=True, text=True)
        ev_ok = r.stdout.strip() or r.stderr.strip().split('\n')[-1][:80]
    except Exception as e:
        ev_ok = str(e)
    rows.append((pid, p.returncode, round(dt), len(viol), known, ev_ok))
    print(f'{pid}: exit={p.returncode} wall={dt:.0f}s violations={len(viol)} known={known} evidence={ev_ok}', flush=True)
    try:
        cnt = json.load(open(f'{here}/evidence/{pid}.json'))['coverage'].get('counters', {})
        exc = {k: v for k, v in cnt.items() if ('exception' in k or 'harness_error' in k) and v}
        if exc: print(f'   note: harness exceptions on this tree: {exc}')
    except Exception:
        pass
    if p.returncode != 0:
        print('   ' + '\n   '.join((p.stdout + p.stderr).strip().split('\n')[-6:])[:1500])
bad = [r for r in rows if r[1] != 0 or r[5] != 'ok']
print(f'{len(rows)} checks, {len(bad)} need attention')
sys.exit(1 if bad else 0)
