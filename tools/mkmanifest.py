#!/usr/bin/env python3
""" Assemble MANIFEST.json from manifest.d/Cxx.json (claimed checks) and manifest.d/not_applicable.json """
import json, os, glob
here = os.path.dirname(os.path.dirname(os.path.abspath(__file__)))
props = [json.loads(l)['id'] for l in open(os.path.join(here, 'properties.jsonl'))]
checks = []
for pid in props:
    f = os.path.join(here, 'manifest.d', pid + '.json')
    if os.path.exists(f):
        c = json.load(open(f))
        c.setdefault('property_id', pid)
        c.setdefault('quick_cmd', f'./check {pid} --tier quick')
        c.setdefault('thorough_cmd', f'./check {pid} --tier thorough')
        c.setdefault('evidence_file', f'evidence/{pid}.json')
        c.setdefault('replay_cmd_template', f'./check {pid} --replay {{path}}')
        c.setdefault('engine', 'lean-model+correspondence')
        checks.append(c)
na_file = os.path.join(here, 'manifest.d', 'not_applicable.json')
na_reasons = json.load(open(na_file)) if os.path.exists(na_file) else {}
claimed = {c['property_id'] for c in checks}
na = [dict(property_id=p, reason=na_reasons.get(p, 'check not yet built in this round: model, theorems and correspondence are designed in DESIGN.md section 6 but not implemented, so nothing is claimed'))
      for p in props if p not in claimed]
hooks = json.load(open(os.path.join(here, 'manifest.d', 'hooks.json')))
man = dict(
    version=1,
    setup_cmd='./check setup',
    hooks=hooks,
    engines=[dict(name='lean-model+correspondence', path='check', serves_properties=sorted(claimed),
                  kind_free_text='Lean 4 model + theorems (lean/StarsimModel), facts regenerated from /repo by harness/extract.py, line-protocol correspondence against the real starsim, oracle search on the real code')],
    checks=checks,
    notes='See DESIGN.md. Exit 0 = held; exit 1 + VIOLATION line = violation; exit 2 = infrastructure error. KNOWN-FINDING lines list genuine defects recorded in known_findings.json.',
    not_applicable=na,
)
json.dump(man, open(os.path.join(here, 'MANIFEST.json'), 'w'), indent=1)
# merge known findings
entries = []
for f in sorted(glob.glob(os.path.join(here, 'known_findings.d', 'C*.json'))):
    for e in json.load(open(f)):
        entries.append(e)
ids = [e['id'] for e in entries]
assert len(ids) == len(set(ids)), 'duplicate known-finding ids'
kf = dict(comment="Committed list of genuine defects of the pinned starsim tree (kind=finding: reported as KNOWN-FINDING, never as VIOLATION) and of repaired ones (kind=fixed: suppress nothing). Assembled by tools/mkmanifest.py from known_findings.d/Cxx.json; never written at run time. A finding is identified by its signature: every key named there must equal the observed failure's signature, so a different violation of the same property is still reported.",
          entries=entries)
json.dump(kf, open(os.path.join(here, 'known_findings.json'), 'w'), indent=1)
print(f'{len(checks)} checks, {len(na)} not claimed')
