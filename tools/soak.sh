#!/bin/bash
# Soak: run checks over many seeds on the unchanged tree and print every run that is not quiet.
#   tools/soak.sh "<props>" <first seed> <last seed>        e.g.  tools/soak.sh "C01 C02" 10 40
# Intended for `vp run -- tools/soak.sh ...` (a snapshot has no .lake: ./check setup is run first).
cd "$(dirname "$0")/.." || exit 2
props=${1:-"C01 C02 C03 C04 C05"}; a=${2:-10}; b=${3:-30}
[ -d lean/.lake ] || ./check setup > /dev/null 2>&1
bad=0; n=0
for s in $(seq $a $b); do
  for p in $props; do
    out=$(VERIF_SEED=$s ./check $p 2>&1); rc=$?
    n=$((n+1))
    if [ $rc -ne 0 ]; then bad=$((bad+1)); echo "=== $p seed=$s exit=$rc"; echo "$out" | grep -v "^KNOWN-FINDING" | tail -6 | cut -c1-600; fi
  done
done
echo "soak done: $n runs, $bad not quiet"
