#!/usr/bin/env python3
""" Print the markdown table of one round of seeded changes from seeded/descriptions<k>.json and seeded/<id>/meta.json.
    usage: tools/mkseedtable.py 3 [first-pass-missed ids ...] """
import json, os, sys
here = os.path.dirname(os.path.dirname(os.path.abspath(__file__)))
rnd = sys.argv[1]; missed = set(sys.argv[2:])
desc = json.load(open(os.path.join(here, 'seeded', f'descriptions{rnd}.json' if rnd != '1' else 'descriptions.json')))
print('| seed | change | needs | first pass | now |'); print('|---|---|---|---|---|')
for k in sorted(desc):
    mp = os.path.join(here, 'seeded', k, 'meta.json')
    m = json.load(open(mp)) if os.path.exists(mp) else {}
    c = (m.get('checks') or {}).get(m.get('property', k[:3]), {})
    viol = c.get('violations', [])
    if not viol: now = 'NOT CAUGHT'
    elif all('no-failing-input-found' in v for v in viol): now = 'proof / correspondence only (no failing input in the quick tier)'
    else: now = f'replay on the real code ({sum(1 for v in viol if "no-failing" not in v)} distinct)'
    first = m.get('first_pass') or ('missed at first' if k in missed else 'caught')
    print(f'| {k} | {desc[k][0]} | {desc[k][1]} | {first} | {now} |')
    m.update(what=desc[k][0], needs=desc[k][1], first_pass=first, breaks=m.get('property', k[:3]))
    tp = os.path.join(here, 'seeded', k, 'tests_with_patch.txt')
    if os.path.exists(tp): m['tests_with_patch'] = open(tp).read().strip()
    if os.path.exists(mp): json.dump(m, open(mp, 'w'), indent=1)
